"""vk -- solver-based checks of esp-idf-kconfig.  The repository under test is /repo unless VERIF_REPO names another
checkout (used to run a check against a scratch worktree, e.g. with a seeded change applied, without touching /repo)."""
import os
import sys

REPO = os.path.abspath(os.environ.get("VERIF_REPO", "/repo"))
if REPO != "/repo" and REPO not in sys.path:
    sys.path.insert(0, REPO)
