"""Structural fingerprint of a parsed Kconfig instance (for the parser-equivalence check)."""
from .state import K


def _e(x):
    if x is None:
        return None
    try:
        return K.expr_str(x)
    except Exception as e:  # malformed expression objects (e.g. strings where tuples are expected)
        return "<bad expr %r: %s>" % (x, type(e).__name__)


def fingerprint(k):
    out = []

    def depth(n):
        d = 0
        while n.parent is not None:
            d += 1
            n = n.parent
        return d

    for n in k.node_iter():
        it = n.item
        if isinstance(it, K.Symbol):
            kind, name, typ = "config", it.name, it.orig_type
        elif isinstance(it, K.Choice):
            kind, name, typ = "choice", it.name, it.orig_type
        elif it == K.MENU:
            kind, name, typ = "menu", None, None
        elif it == K.COMMENT:
            kind, name, typ = "comment", None, None
        else:
            kind, name, typ = str(it), None, None
        rec = {
            "kind": kind,
            "name": name,
            "type": typ,
            "depth": depth(n),
            "prompt": (n.prompt[0], _e(n.prompt[1])) if n.prompt else None,
            "help": n.help,
            "dep": _e(n.dep),
            "visibility": _e(getattr(n, "visibility", None)) if kind == "menu" else None,
            "is_menuconfig": bool(n.is_menuconfig),
            "defaults": [(_e(v), _e(c)) for v, c in n.defaults],
            "ranges": [(_e(a), _e(b), _e(c)) for a, b, c in n.ranges],
            "selects": [(_e(t), _e(c)) for t, c in n.selects],
            "implies": [(_e(t), _e(c)) for t, c in n.implies],
        }
        for attr in ("sets", "weak_sets"):
            v = getattr(n, attr, None)
            if v:
                rec[attr] = [tuple(_e(x) if not isinstance(x, str) else x for x in t) for t in v]
        out.append(rec)
    syms = []
    for s in k.unique_defined_syms:
        syms.append((s.name, s.orig_type, [(_e(v), _e(c)) for v, c in s.defaults], [(_e(a), _e(b), _e(c)) for a, b, c in s.ranges], _e(s.rev_dep), _e(s.weak_rev_dep), _e(s.direct_dep),
                     [(_e(v), _e(c), src.name) for v, c, src in s.rev_values], [(_e(v), _e(c), src.name) for v, c, src in s.weak_rev_values], s.env_var))
    chs = [(c.name, [m.name for m in c.syms], [(_e(v), _e(cn)) for v, cn in c.defaults], _e(c.direct_dep)) for c in k.unique_choices]
    return {"nodes": out, "syms": syms, "choices": chs, "mainmenu": k.mainmenu_text}


def diff(a, b):
    """-> list of human-readable differences between two fingerprints"""
    d = []
    if a["mainmenu"] != b["mainmenu"]:
        d.append("mainmenu %r vs %r" % (a["mainmenu"], b["mainmenu"]))
    if len(a["nodes"]) != len(b["nodes"]):
        d.append("node count %d vs %d" % (len(a["nodes"]), len(b["nodes"])))
    for i, (x, y) in enumerate(zip(a["nodes"], b["nodes"])):
        for key in x:
            if x.get(key) != y.get(key):
                d.append("node %d (%s %s) %s: %r vs %r" % (i, x["kind"], x["name"], key, x.get(key), y.get(key)))
    for x, y in zip(a["syms"], b["syms"]):
        if x != y:
            d.append("symbol %s: %r vs %r" % (x[0], x, y))
    if a["choices"] != b["choices"]:
        d.append("choices: %r vs %r" % (a["choices"], b["choices"]))
    return d
