"""Tree mutants.  Ids: '<base>:back:<kind>' = base edge tree (Y depends on X) plus one back edge X <- Y of `kind`."""
import copy

from .dsl import Cfg, Menu, If, Choice, Tree, walk
from . import edges

B = "bool"

BACK_KINDS = [
    "dep", "prompt_if", "default_cond", "default_val", "range_bound", "range_cond",
    "select", "select_cond", "imply", "imply_cond",
    "set", "set_cond", "set_val", "setdef", "setdef_cond", "setdef_val",
    "if", "menu_dep", "menu_vis", "choice_dep", "choice_default_cond", "choice_member",
]


def _find(tree, name):
    found = []

    def f(n, ctx):
        if isinstance(n, Cfg) and n.name == name:
            found.append((n, ctx))

    walk(tree.children, f)
    return found


def _expr_on(y):
    if y.type == "bool":
        return y.name
    if y.type == "string":
        return '%s = "p"' % y.name
    if y.type == "hex":
        return "%s > 0x3" % y.name
    return "%s > 3" % y.name


def _lit(x):
    return {"bool": "y", "int": "3", "hex": "0x3", "string": '"lit"', "float": "1.5"}[x.type]


def _replace(tree, node, new_nodes):
    def rec(lst):
        for i, n in enumerate(lst):
            if n is node:
                lst[i : i + 1] = new_nodes
                return True
            ch = getattr(n, "children", None)
            if ch and rec(ch):
                return True
        return False

    assert rec(tree.children)


def back_edge(base, kind, xname="X", yname="Y"):
    """-> mutated Tree or None if the kind does not apply to the types of X and Y"""
    t = copy.deepcopy(base)
    xs, ys = _find(t, xname), _find(t, yname)
    if not xs or not ys:
        return None
    x, xctx = xs[0]
    y, _ = ys[0]
    e = _expr_on(y)
    num = x.type in ("int", "hex", "float")
    if kind == "dep":
        x.depends.append(e)
    elif kind == "prompt_if":
        if x.prompt is None:
            return None
        x.prompt_if = e if not x.prompt_if else "(%s) && %s" % (x.prompt_if, e)
    elif kind == "default_cond":
        x.defaults.insert(0, (_lit(x), e))
    elif kind == "default_val":
        if x.type != y.type:
            return None
        x.defaults.insert(0, (y.name, None))
    elif kind == "range_bound":
        if not num or x.type != y.type:
            return None
        x.ranges.insert(0, (y.name, {"int": "1000", "hex": "0xffff", "float": "99.5"}[x.type], None))
    elif kind == "range_cond":
        if not num:
            return None
        x.ranges.insert(0, ({"int": "0", "hex": "0x0", "float": "0.0"}[x.type], {"int": "1000", "hex": "0xffff", "float": "99.5"}[x.type], e))
    elif kind in ("select", "imply"):
        if x.type != "bool" or y.type != "bool":
            return None
        (y.selects if kind == "select" else y.implies).append((x.name, None))
    elif kind in ("select_cond", "imply_cond"):
        if x.type != "bool":
            return None
        h = Cfg("HH", B, "hh")
        (h.selects if kind == "select_cond" else h.implies).append((x.name, e))
        t.children.append(h)
    elif kind in ("set", "setdef"):
        if x.type == "bool" or y.type != "bool":
            return None
        (y.sets if kind == "set" else y.set_defaults).append((x.name, _lit(x), None))
    elif kind in ("set_cond", "setdef_cond"):
        if x.type == "bool":
            return None
        h = Cfg("HH", B, "hh")
        (h.sets if kind == "set_cond" else h.set_defaults).append((x.name, _lit(x), e))
        t.children.append(h)
    elif kind in ("set_val", "setdef_val"):
        if x.type != "string" or y.type != "string":
            return None
        h = Cfg("HH", B, "hh")
        (h.sets if kind == "set_val" else h.set_defaults).append((x.name, y.name, None))
        t.children.append(h)
    elif kind == "if":
        _replace(t, x, [If(e, [x])])
    elif kind == "menu_dep":
        _replace(t, x, [Menu("back", depends=[e], children=[x])])
    elif kind == "menu_vis":
        if x.prompt is None:
            return None
        _replace(t, x, [Menu("back", visible_if=[e], children=[x])])
    elif kind in ("choice_dep", "choice_default_cond", "choice_member"):
        if x.type != "bool" or x.prompt is None or any(isinstance(c, Choice) for c in xctx):
            return None
        other = Cfg("OTHER_M", B, "other m")
        if kind == "choice_dep":
            ch = Choice("BACKCH", "back", depends=[e], children=[x, other])
        elif kind == "choice_default_cond":
            # X's value depends on which member is the default, which depends on Y
            ch = Choice("BACKCH", "back", defaults=[("OTHER_M", e)], children=[x, other])
        else:
            # Y's dependent becomes X through membership: OTHER_M visible only if Y, X is the fallback selection
            other.depends.append(e)
            ch = Choice("BACKCH", "back", children=[other, x])
        _replace(t, x, [ch])
    else:
        raise ValueError(kind)
    return t


def resolve(tid):
    base_id, tag, kind = tid.split(":")
    base = edges.get(base_id)
    if tag == "back":
        t = back_edge(base, kind)
        if t is None:
            raise KeyError(tid)
        t.id = tid
        return t
    raise KeyError(tid)


# edge trees in which Y does not depend on X (an added back edge closes no loop)
NO_FORWARD_EDGE = {"E_multi_prompt"}


def all_back_mutants():
    out = []
    for b in edges.ids():
        if b in NO_FORWARD_EDGE:
            continue
        base = edges.get(b)
        for kind in BACK_KINDS:
            try:
                if back_edge(base, kind) is not None:
                    out.append("%s:back:%s" % (b, kind))
            except AssertionError:
                pass
    return out


# ------------------------------------------------------------------ tree versions (old -> new) for C08 / C12


def _mut(base, fn):
    t = copy.deepcopy(base)
    fn(t)
    return t


def _cfg(t, name, idx=0):
    return _find(t, name)[idx][0]


def _rm(t, name):
    n = _cfg(t, name)
    _replace(t, n, [])


VERSIONS = {
    # id: (base template, mutation)
    "T01:mut:flipdefault": ("T01", lambda t: _cfg(t, "A").defaults.__setitem__(0, ("n", None))),
    "T01:mut:defaultcond": ("T01", lambda t: _cfg(t, "B").defaults.__setitem__(0, ("y", "!C"))),
    "T01:mut:addopt": ("T01", lambda t: t.children.append(Cfg("ZNEW", B, "znew", defaults=[("y", None)]))),
    "T01:mut:rmopt": ("T01", lambda t: _rm(t, "E") or _cfg(t, "D").selects.clear() or _cfg(t, "Q").depends.__setitem__(0, "P")),
    # the definition goes away but `Q depends on P || E` keeps referring to the name
    "T01:mut:rmdef": ("T01", lambda t: _rm(t, "E") or _cfg(t, "D").selects.clear()),
    "T01:mut:promptless": ("T01", lambda t: setattr(_cfg(t, "G"), "prompt", None)),
    "T03:mut:default": ("T03", lambda t: _cfg(t, "N").defaults.__setitem__(1, ("20", None))),
    "T03:mut:range": ("T03", lambda t: _cfg(t, "N").ranges.__setitem__(1, ("LO", "15", None))),
    "T03:mut:cond": ("T03", lambda t: _cfg(t, "K").defaults.__setitem__(0, ("N", "!WIDE"))),
    "T03:mut:addopt": ("T03", lambda t: t.children.append(Cfg("NEWI", "int", "newi", defaults=[("9", None)]))),
    "T05:mut:strdefault": ("T05", lambda t: _cfg(t, "MODE").defaults.__setitem__(1, ('"eco"', None))),
    "T07:mut:choicedefault": ("T07", lambda t: _find_choice(t, "CH").defaults.__setitem__(1, ("M1", None))),
    "T16:mut:fwd2": ("T16", lambda t: _cfg(t, "EN").defaults.__setitem__(0, ("n", None)) or _cfg(t, "X").defaults.__setitem__(0, ("7", None))),
    "T16:mut:fwd1": ("T16", lambda t: _cfg(t, "X").defaults.__setitem__(0, ("7", None))),
    # an option defined in two places (differently gated) whose default changes
    "E_multidef:mut:default": ("E_multidef", lambda t: _find(t, "Y")[0][0].defaults.__setitem__(0, ("4", None))),
    # the option another option's default refers to (and that is defined after it) gets a new default
    "E_default_val_fwd:mut:base": ("E_default_val_fwd", lambda t: _find(t, "X")[0][0].defaults.__setitem__(0, ("6", None)) or _find(t, "XS")[0][0].defaults.__setitem__(0, ('"b"', None))),
    "T04:mut:hexdefault": ("T04", lambda t: _cfg(t, "HX").defaults.__setitem__(0, ("0x30", None))),
    "T04:mut:floatdefault": ("T04", lambda t: _cfg(t, "FL").defaults.__setitem__(1, ("3.5", None))),
}


def _find_choice(t, name):
    found = []
    walk(t.children, lambda n, c: found.append(n) if isinstance(n, Choice) and n.name == name else None)
    return found[0]


_orig_resolve = resolve


def resolve(tid):  # noqa: F811
    if tid in VERSIONS:
        from . import templates

        base, fn = VERSIONS[tid]
        t = _mut(edges.get(base) if base.startswith("E_") else templates.get(base), fn)
        t.id = tid
        return t
    return _orig_resolve(tid)
