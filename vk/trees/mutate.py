"""Tree mutants.  Ids: '<base>:back:<kind>' = base edge tree (Y depends on X) plus one back edge X <- Y of `kind`."""
import copy

from .dsl import Cfg, Menu, If, Choice, Tree, walk
from . import edges

B = "bool"

BACK_KINDS = [
    "dep", "prompt_if", "default_cond", "default_val", "range_bound", "range_cond",
    "select", "select_cond", "imply", "imply_cond",
    "set", "set_cond", "set_val", "setdef", "setdef_cond", "setdef_val",
    "if", "menu_dep", "menu_vis", "choice_dep", "choice_default_cond", "choice_member",
]


def _find(tree, name):
    found = []

    def f(n, ctx):
        if isinstance(n, Cfg) and n.name == name:
            found.append((n, ctx))

    walk(tree.children, f)
    return found


def _expr_on(y):
    if y.type == "bool":
        return y.name
    if y.type == "string":
        return '%s = "p"' % y.name
    if y.type == "hex":
        return "%s > 0x3" % y.name
    return "%s > 3" % y.name


def _lit(x):
    return {"bool": "y", "int": "3", "hex": "0x3", "string": '"lit"', "float": "1.5"}[x.type]


def _replace(tree, node, new_nodes):
    def rec(lst):
        for i, n in enumerate(lst):
            if n is node:
                lst[i : i + 1] = new_nodes
                return True
            ch = getattr(n, "children", None)
            if ch and rec(ch):
                return True
        return False

    assert rec(tree.children)


def back_edge(base, kind, xname="X", yname="Y"):
    """-> mutated Tree or None if the kind does not apply to the types of X and Y"""
    t = copy.deepcopy(base)
    xs, ys = _find(t, xname), _find(t, yname)
    if not xs or not ys:
        return None
    x, xctx = xs[0]
    y, _ = ys[0]
    e = _expr_on(y)
    num = x.type in ("int", "hex", "float")
    if kind == "dep":
        x.depends.append(e)
    elif kind == "prompt_if":
        if x.prompt is None:
            return None
        x.prompt_if = e if not x.prompt_if else "(%s) && %s" % (x.prompt_if, e)
    elif kind == "default_cond":
        x.defaults.insert(0, (_lit(x), e))
    elif kind == "default_val":
        if x.type != y.type:
            return None
        x.defaults.insert(0, (y.name, None))
    elif kind == "range_bound":
        if not num or x.type != y.type:
            return None
        x.ranges.insert(0, (y.name, {"int": "1000", "hex": "0xffff", "float": "99.5"}[x.type], None))
    elif kind == "range_cond":
        if not num:
            return None
        x.ranges.insert(0, ({"int": "0", "hex": "0x0", "float": "0.0"}[x.type], {"int": "1000", "hex": "0xffff", "float": "99.5"}[x.type], e))
    elif kind in ("select", "imply"):
        if x.type != "bool" or y.type != "bool":
            return None
        (y.selects if kind == "select" else y.implies).append((x.name, None))
    elif kind in ("select_cond", "imply_cond"):
        if x.type != "bool":
            return None
        h = Cfg("HH", B, "hh")
        (h.selects if kind == "select_cond" else h.implies).append((x.name, e))
        t.children.append(h)
    elif kind in ("set", "setdef"):
        if x.type == "bool" or y.type != "bool":
            return None
        (y.sets if kind == "set" else y.set_defaults).append((x.name, _lit(x), None))
    elif kind in ("set_cond", "setdef_cond"):
        if x.type == "bool":
            return None
        h = Cfg("HH", B, "hh")
        (h.sets if kind == "set_cond" else h.set_defaults).append((x.name, _lit(x), e))
        t.children.append(h)
    elif kind in ("set_val", "setdef_val"):
        if x.type != "string" or y.type != "string":
            return None
        h = Cfg("HH", B, "hh")
        (h.sets if kind == "set_val" else h.set_defaults).append((x.name, y.name, None))
        t.children.append(h)
    elif kind == "if":
        _replace(t, x, [If(e, [x])])
    elif kind == "menu_dep":
        _replace(t, x, [Menu("back", depends=[e], children=[x])])
    elif kind == "menu_vis":
        if x.prompt is None:
            return None
        _replace(t, x, [Menu("back", visible_if=[e], children=[x])])
    elif kind in ("choice_dep", "choice_default_cond", "choice_member"):
        if x.type != "bool" or x.prompt is None or any(isinstance(c, Choice) for c in xctx):
            return None
        other = Cfg("OTHER_M", B, "other m")
        if kind == "choice_dep":
            ch = Choice("BACKCH", "back", depends=[e], children=[x, other])
        elif kind == "choice_default_cond":
            # X's value depends on which member is the default, which depends on Y
            ch = Choice("BACKCH", "back", defaults=[("OTHER_M", e)], children=[x, other])
        else:
            # Y's dependent becomes X through membership: OTHER_M visible only if Y, X is the fallback selection
            other.depends.append(e)
            ch = Choice("BACKCH", "back", children=[other, x])
        _replace(t, x, [ch])
    else:
        raise ValueError(kind)
    return t


def resolve(tid):
    base_id, tag, kind = tid.split(":")
    base = edges.get(base_id)
    if tag == "back":
        t = back_edge(base, kind)
        if t is None:
            raise KeyError(tid)
        t.id = tid
        return t
    raise KeyError(tid)


def all_back_mutants():
    out = []
    for b in edges.ids():
        base = edges.get(b)
        for kind in BACK_KINDS:
            try:
                if back_edge(base, kind) is not None:
                    out.append("%s:back:%s" % (b, kind))
            except AssertionError:
                pass
    return out
