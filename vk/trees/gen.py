"""Seeded random composition of well-formed trees from the same constructs as the templates.
Acyclic by construction: an option only refers to options generated before it (select / imply / set point forward)."""
import random

from .dsl import Cfg, Menu, If, Choice, Comment, Tree

B, I, H, S, F = "bool", "int", "hex", "string", "float"


def _cond(rng, bools, ints, strs, depth=0):
    """a random condition over earlier options, or None"""
    if not bools and not ints and not strs:
        return None
    r = rng.random()
    if depth < 2 and r < 0.25 and bools:
        a = _cond(rng, bools, ints, strs, depth + 1)
        b = _cond(rng, bools, ints, strs, depth + 1)
        if a and b:
            return "(%s) %s (%s)" % (a, rng.choice(["&&", "||"]), b)
    if r < 0.65 and bools:
        x = rng.choice(bools)
        return x if rng.random() < 0.7 else "!" + x
    if r < 0.85 and ints:
        return "%s %s %d" % (rng.choice(ints), rng.choice(["<", "<=", ">", ">=", "=", "!="]), rng.choice([0, 3, 5, 10, 50]))
    if strs:
        return '%s %s "%s"' % (rng.choice(strs), rng.choice(["=", "!="]), rng.choice(["a", "fast", ""]))
    if bools:
        return rng.choice(bools)
    return None


def random_tree(seed, n_opts=6):
    rng = random.Random(seed * 7919 + 13)
    opts = []  # generated Cfg in order
    bools, ints, strs, hexs, floats = [], [], [], [], []
    pending = []  # (kind, source index, target spec) resolved when a later option of the right type appears
    top = []
    container = top
    stack = []
    i = 0
    while i < n_opts:
        r = rng.random()
        # occasionally open / close a context
        if r < 0.12 and len(stack) < 2 and bools:
            c = _cond(rng, bools, ints, strs)
            node = If(c, []) if rng.random() < 0.5 else Menu("m%d" % i, depends=[c] if rng.random() < 0.6 else [], visible_if=[rng.choice(bools)] if rng.random() < 0.4 else [], children=[])
            container.append(node)
            stack.append(container)
            container = node.children
            continue
        if r < 0.2 and stack and container:
            container = stack.pop()
            continue
        if r < 0.3 and i + 2 <= n_opts and len(stack) < 2 and bools:
            # a choice with two or three members
            m = 2 if rng.random() < 0.6 or i + 3 > n_opts else 3
            names = ["O%d" % (i + j) for j in range(m)]
            members = []
            for nm in names:
                members.append(Cfg(nm, B, nm.lower(), prompt_if=_cond(rng, bools, [], []) if rng.random() < 0.3 else None, depends=[_cond(rng, bools, ints, strs)] if rng.random() < 0.25 and bools else []))
            ch = Choice("CH%d" % i if rng.random() < 0.7 else None, "ch%d" % i, depends=[_cond(rng, bools, ints, strs)] if rng.random() < 0.3 and bools else [], defaults=[(rng.choice(names), _cond(rng, bools, ints, strs))] if rng.random() < 0.6 else [], children=members)
            ch.defaults = [(d, c) for d, c in ch.defaults]
            container.append(ch)
            bools += names
            i += m
            continue
        t = rng.choice([B, B, B, I, I, S, H, F])
        name = "O%d" % i
        cfg = Cfg(name, t, name.lower() if rng.random() < 0.85 else None)
        if cfg.prompt and rng.random() < 0.3:
            cfg.prompt_if = _cond(rng, bools, ints, strs)
        if rng.random() < 0.4:
            c = _cond(rng, bools, ints, strs)
            if c:
                cfg.depends.append(c)
        if t == B:
            if rng.random() < 0.6:
                c = _cond(rng, bools, ints, strs)
                cfg.defaults.append((rng.choice(["y", "n"] + bools[:2]), c))
                if c and rng.random() < 0.5:
                    cfg.defaults.append(("y" if rng.random() < 0.5 else "n", None))
        elif t == I:
            if rng.random() < 0.6:
                lo, hi = sorted(rng.sample([0, 1, 5, 10, 20, 100], 2))
                c = _cond(rng, bools, ints, strs) if rng.random() < 0.5 else None
                cfg.ranges.append((str(lo), str(hi), c))
                if c and rng.random() < 0.5:
                    cfg.ranges.append(("0", "1000", None))
            if rng.random() < 0.5:
                cfg.defaults.append((rng.choice(["3", "7", "50"] + ints[:1]), _cond(rng, bools, ints, strs)))
            cfg.defaults.append((rng.choice(["1", "5", "12"]), None))
        elif t == H:
            if rng.random() < 0.5:
                cfg.ranges.append(("0x0", rng.choice(["0xff", "0x10"]), _cond(rng, bools, ints, strs) if rng.random() < 0.4 else None))
            cfg.defaults.append((rng.choice(["0x1", "0x20", "0xA"]), None))
        elif t == F:
            if rng.random() < 0.5:
                cfg.ranges.append(("0.5", "9.5", None))
            cfg.defaults.append((rng.choice(["1.5", "2", "1e0"]), None))
        else:
            if rng.random() < 0.5:
                cfg.defaults.append((rng.choice(['"fast"', '"a"'] + strs[:1]), _cond(rng, bools, ints, strs)))
            if rng.random() < 0.7:
                cfg.defaults.append((rng.choice(['"d"', '"slow"', '"q\\"t"']), None))
        # reverse dependencies from an earlier bool source onto this (later) option
        src = [o for o in opts if o.type == B and not getattr(o, "_in_choice", False)]
        if src and rng.random() < 0.45:
            s_ = rng.choice(src)
            c = _cond(rng, [b for b in bools if b != name], ints, strs) if rng.random() < 0.4 else None
            if t == B:
                (s_.selects if rng.random() < 0.5 else s_.implies).append((name, c))
            else:
                val = {I: "4", H: "0x8", F: "2.5", S: '"forced"'}[t]
                (s_.sets if rng.random() < 0.5 else s_.set_defaults).append((name, val, c))
        container.append(cfg)
        opts.append(cfg)
        {B: bools, I: ints, S: strs, H: hexs, F: floats}[t].append(name)
        i += 1
    return Tree("R%d" % seed, top)
