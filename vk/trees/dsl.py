"""Own AST of Kconfig trees + renderer to canonical Kconfig text.  Independent of both repo parsers.

Expressions are written as strings in Kconfig syntax and parsed by the small recursive-descent parser below into
tuples:  ("sym", NAME) | ("lit", unquoted text) | ("str", quoted text) | ("not", e) | ("and", a, b) | ("or", a, b) | (relop, a, b)
with relop in {"=", "!=", "<", "<=", ">", ">="}.
"""
from dataclasses import dataclass, field
from typing import List, Optional, Tuple, Union, Any
import re

# ------------------------------------------------------------------------------------ expressions

_TOK = re.compile(r'\s*(?:(&&|\|\||!=|<=|>=|=|<|>|!|\(|\))|"((?:[^"\\]|\\.)*)"|([A-Za-z0-9_.+\-]+))')


def parse_expr(s: Optional[str]):
    if s is None:
        return None
    toks = []
    pos = 0
    s = s.strip()
    while pos < len(s):
        m = _TOK.match(s, pos)
        if not m:
            raise ValueError("bad expr %r at %d" % (s, pos))
        pos = m.end()
        if m.group(1):
            toks.append(("op", m.group(1)))
        elif m.group(2) is not None:
            toks.append(("str", re.sub(r"\\(.)", r"\1", m.group(2))))
        else:
            t = m.group(3)
            if re.fullmatch(r"[A-Z][A-Z0-9_]*", t) or t in ("y", "n"):
                toks.append(("sym", t))
            else:
                toks.append(("lit", t))
    i = [0]

    def peek():
        return toks[i[0]] if i[0] < len(toks) else (None, None)

    def eat():
        t = toks[i[0]]
        i[0] += 1
        return t

    def p_or():
        e = p_and()
        while peek() == ("op", "||"):
            eat()
            e = ("or", e, p_and())
        return e

    def p_and():
        e = p_fac()
        while peek() == ("op", "&&"):
            eat()
            e = ("and", e, p_fac())
        return e

    def p_fac():
        k, v = peek()
        if (k, v) == ("op", "!"):
            eat()
            return ("not", p_fac())
        if (k, v) == ("op", "("):
            eat()
            e = p_or()
            assert eat() == ("op", ")")
            return e
        a = eat()
        k2, v2 = peek()
        if k2 == "op" and v2 in ("=", "!=", "<", "<=", ">", ">="):
            eat()
            b = eat()
            return (v2, a, b)
        return a

    e = p_or()
    assert i[0] == len(toks), "trailing tokens in %r" % s
    return e


def expr_syms(e, acc=None):
    acc = set() if acc is None else acc
    if e is None:
        return acc
    if e[0] == "sym":
        if e[1] not in ("y", "n"):
            acc.add(e[1])
    elif e[0] not in ("lit", "str"):
        for x in e[1:]:
            expr_syms(x, acc)
    return acc


# ------------------------------------------------------------------------------------------ nodes


@dataclass
class Cfg:
    name: str
    type: str  # bool int hex string float
    prompt: Optional[str] = None
    prompt_if: Optional[str] = None
    depends: List[str] = field(default_factory=list)
    defaults: List[Tuple[str, Optional[str]]] = field(default_factory=list)  # (value text as written, cond)
    ranges: List[Tuple[str, str, Optional[str]]] = field(default_factory=list)
    selects: List[Tuple[str, Optional[str]]] = field(default_factory=list)
    implies: List[Tuple[str, Optional[str]]] = field(default_factory=list)
    sets: List[Tuple[str, str, Optional[str]]] = field(default_factory=list)  # (target, value text, cond)
    set_defaults: List[Tuple[str, str, Optional[str]]] = field(default_factory=list)
    menuconfig: bool = False
    help: Optional[str] = None
    children: List[Any] = field(default_factory=list)  # only rendered for menuconfig (as following entries depending on it)
    extra: List[str] = field(default_factory=list)  # raw extra option lines


@dataclass
class Menu:
    title: str
    depends: List[str] = field(default_factory=list)
    visible_if: List[str] = field(default_factory=list)
    children: List[Any] = field(default_factory=list)


@dataclass
class If:
    cond: str
    children: List[Any] = field(default_factory=list)


@dataclass
class Choice:
    name: Optional[str]
    prompt: str
    prompt_if: Optional[str] = None
    depends: List[str] = field(default_factory=list)
    defaults: List[Tuple[str, Optional[str]]] = field(default_factory=list)
    children: List[Any] = field(default_factory=list)
    help: Optional[str] = None
    extra: List[str] = field(default_factory=list)  # raw extra option lines


@dataclass
class Comment:
    text: str
    depends: List[str] = field(default_factory=list)


@dataclass
class Raw:
    """verbatim lines (already in Kconfig syntax, un-indented); used for constructs outside the DSL"""

    lines: List[str]


@dataclass
class Tree:
    id: str
    children: List[Any]
    title: str = "T"
    renames: List[List[str]] = field(default_factory=list)  # rename files: list of files, each list of lines
    notes: str = ""


# --------------------------------------------------------------------------------------- rendering


def _q(s):
    return '"' + s.replace("\\", "\\\\").replace('"', '\\"') + '"'


def _cond(c):
    return (" if " + c) if c else ""


def render_node(n, ind, out):
    p = "    " * ind
    q = "    " * (ind + 1)
    if isinstance(n, Cfg):
        out.append(p + ("menuconfig " if n.menuconfig else "config ") + n.name)
        if n.prompt is not None:
            out.append(q + n.type + " " + _q(n.prompt) + _cond(n.prompt_if))
        else:
            out.append(q + n.type)
        for d in n.depends:
            out.append(q + "depends on " + d)
        for lo, hi, c in n.ranges:
            out.append(q + "range %s %s%s" % (lo, hi, _cond(c)))
        for v, c in n.defaults:
            out.append(q + "default " + v + _cond(c))
        for t, c in n.selects:
            out.append(q + "select " + t + _cond(c))
        for t, c in n.implies:
            out.append(q + "imply " + t + _cond(c))
        for t, v, c in n.sets:
            out.append(q + "set %s=%s%s" % (t, v, _cond(c)))
        for t, v, c in n.set_defaults:
            out.append(q + "set default %s=%s%s" % (t, v, _cond(c)))
        for x in n.extra:
            out.append(q + x)
        if n.help:
            out.append(q + "help")
            for line in n.help.split("\n"):
                out.append(("    " * (ind + 2) + line) if line else "")
        out.append("")
        for c in n.children:
            render_node(c, ind, out)
    elif isinstance(n, Menu):
        out.append(p + "menu " + _q(n.title))
        for d in n.depends:
            out.append(q + "depends on " + d)
        for v in n.visible_if:
            out.append(q + "visible if " + v)
        out.append("")
        for c in n.children:
            render_node(c, ind + 1, out)
        out.append(p + "endmenu")
        out.append("")
    elif isinstance(n, If):
        out.append(p + "if " + n.cond)
        out.append("")
        for c in n.children:
            render_node(c, ind + 1, out)
        out.append(p + "endif")
        out.append("")
    elif isinstance(n, Choice):
        out.append(p + "choice" + ((" " + n.name) if n.name else ""))
        out.append(q + "prompt " + _q(n.prompt) + _cond(n.prompt_if))
        for d in n.depends:
            out.append(q + "depends on " + d)
        for v, c in n.defaults:
            out.append(q + "default " + v + _cond(c))
        for x in n.extra:
            out.append(q + x)
        if n.help:
            out.append(q + "help")
            for line in n.help.split("\n"):
                out.append("    " * (ind + 2) + line)
        out.append("")
        for c in n.children:
            render_node(c, ind + 1, out)
        out.append(p + "endchoice")
        out.append("")
    elif isinstance(n, Comment):
        out.append(p + "comment " + _q(n.text))
        for d in n.depends:
            out.append(q + "depends on " + d)
        out.append("")
    elif isinstance(n, Raw):
        for line in n.lines:
            out.append((p + line) if line else "")
        out.append("")
    else:
        raise TypeError(n)


def render(tree: Tree) -> str:
    out = ["mainmenu " + _q(tree.title), ""]
    for c in tree.children:
        render_node(c, 1, out)
    return "\n".join(out).rstrip("\n") + "\n"


def walk(nodes, fn, ctx=()):
    """calls fn(node, ctx) for each node, ctx = tuple of enclosing nodes"""
    for n in nodes:
        fn(n, ctx)
        ch = getattr(n, "children", None)
        if ch:
            walk(ch, fn, ctx + (n,))


def all_cfgs(tree: Tree):
    acc = []
    walk(tree.children, lambda n, c: acc.append((n, c)) if isinstance(n, Cfg) else None)
    return acc


def all_choices(tree: Tree):
    acc = []
    walk(tree.children, lambda n, c: acc.append((n, c)) if isinstance(n, Choice) else None)
    return acc
