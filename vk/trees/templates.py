"""Fixed corpus of hand-written trees.  Each keeps the number of user-settable options small (<= 8)
so that the complete assignment space can be exhausted by the solver."""
from .dsl import Cfg, Menu, If, Choice, Comment, Raw, Tree

B, I, H, S, F = "bool", "int", "hex", "string", "float"


def T01():
    """bool core: defaults, conditional prompt, depends on, select/imply (conditional), OR-ed deps"""
    return Tree(
        "T01",
        [
            Cfg("A", B, "a", defaults=[("y", None)], help="First paragraph of help.\n\nSecond paragraph after one blank line.\n\n\nThird paragraph after two blank lines,\n  with an indented continuation line."),
            Cfg("B", B, "b", depends=["A"], defaults=[("y", "C"), ("n", None)], help="config in help text\nmenu \"x\" is just text here"),
            Cfg("C", B, "c", prompt_if="A"),
            Cfg("D", B, "d", selects=[("E", "A")], implies=[("G", None)]),
            Cfg("E", B, "e", depends=["A || C"]),
            Cfg("G", B, "g", depends=["B"], defaults=[("C", None)]),
            Cfg("P", B, None, defaults=[("y", "A && !B")]),
            Cfg("Q", B, "q", depends=["P || E"], selects=[("G", "D")]),
        ],
    )


def T02():
    """nested contexts: menu depends on > if > menu visible if > config with conditional prompt; comment"""
    return Tree(
        "T02",
        [
            Cfg("M", B, "m", defaults=[("y", None)]),
            Cfg("V", B, "v"),
            Cfg("X", B, "x"),
            Menu(
                "outer",
                depends=["M"],
                children=[
                    Cfg("O1", B, "o1", defaults=[("y", None)]),
                    If(
                        "X",
                        [
                            Menu(
                                "inner",
                                visible_if=["V"],
                                children=[
                                    Cfg("N1", B, "n1", prompt_if="O1", defaults=[("y", "V")], selects=[("S1", None)]),
                                    Cfg("N2", I, "n2", defaults=[("7", "O1"), ("3", None)]),
                                    Comment("inner comment", depends=["N1"]),
                                ],
                            ),
                            Cfg("I1", S, "i1", defaults=[('"in"', None)]),
                        ],
                    ),
                ],
            ),
            Cfg("S1", B, "s1"),
        ],
    )


def T03():
    """int: conditional and fall-back range, symbol-valued bounds, conditional defaults, conditional prompt"""
    return Tree(
        "T03",
        [
            Cfg("WIDE", B, "wide"),
            Cfg("EN", B, "en", defaults=[("y", None)]),
            Cfg("LO", I, "lo", defaults=[("2", None)], ranges=[("0", "50", None)]),
            Cfg("N", I, "n", ranges=[("LO", "1000", "WIDE"), ("LO", "100", None)], defaults=[("500", "WIDE"), ("10", None)]),
            Cfg("K", I, "k", prompt_if="EN", depends=["EN || WIDE"], defaults=[("N", "WIDE"), ("5", None)], ranges=[("1", "9", "!WIDE")]),
            Cfg("NR", I, "nr", defaults=[("42", None)]),
        ],
    )


def T04():
    """hex and float with ranges, upper-case hex default, float needing normalisation"""
    return Tree(
        "T04",
        [
            Cfg("BIG", B, "big"),
            Cfg("HX", H, "hx", ranges=[("0x10", "0xff", "!BIG"), ("0x0", "0xffff", None)], defaults=[("0x20", None)]),
            Cfg("HP", H, "hp", defaults=[("0x1f", "BIG"), ("0x0A", None)]),
            Cfg("FL", F, "fl", ranges=[("0.5", "9.5", None)], defaults=[("1e0", "BIG"), ("2.50", None)]),
            Cfg("FN", F, "fn", defaults=[("5", None)]),
            Cfg("HB", H, "hb", depends=["BIG"], ranges=[("HX", "0xffff", None)], defaults=[("0x100", None)]),
        ],
    )


def T05():
    """strings: conditional defaults, symbol-valued default, string relations, defaults needing escapes"""
    return Tree(
        "T05",
        [
            Cfg("FAST", B, "fast"),
            Cfg("MODE", S, "mode", defaults=[('"fast"', "FAST"), ('"slow"', None)]),
            Cfg("NAME", S, "name", defaults=[('"a\\"b\\\\c"', None)]),
            Cfg("COPY", S, "copy", depends=['MODE != "slow"'], defaults=[("NAME", None)]),
            Cfg("EQ", B, "eq", depends=['MODE = "fast" || NAME = COPY']),
            Cfg("EMPTY", S, "empty"),
        ],
    )


def T05s():
    """strings that no expression refers to (used with fully symbolic values)"""
    return Tree(
        "T05s",
        [
            Cfg("G", B, "g", defaults=[("y", None)]),
            Cfg("S1", S, "s1", defaults=[('"a\\"b\\\\c"', None)]),
            Cfg("S2", S, "s2", depends=["G"]),
            Cfg("S3", S, None, defaults=[("S1", None)]),
        ],
    )


def T06():
    """set / set default (conditional, literal and symbol-valued) on int and string targets; two sources"""
    return Tree(
        "T06",
        [
            Cfg("SRC1", B, "src1", sets=[("TI", "50", "GATE")], set_defaults=[("TS", '"one"', None)]),
            Cfg("SRC2", B, "src2", depends=["GATE"], sets=[("TS", "VS", None)], set_defaults=[("TI", "7", None), ("TD", "3", None)]),
            Cfg("GATE", B, "gate", defaults=[("y", None)]),
            Cfg("DEP", B, "dep", defaults=[("y", None)]),
            Cfg("VS", S, "vs", defaults=[('"vv"', None)]),
            Cfg("TI", I, "ti", depends=["DEP"], ranges=[("0", "10", "!GATE"), ("0", "100", None)], defaults=[("1", None)]),
            Cfg("TS", S, "ts", depends=["DEP"], defaults=[('"dflt"', None)]),
            Cfg("TD", I, "td", prompt_if="DEP", defaults=[("2", None)]),
        ],
    )


def T07():
    """named choice, conditional default, member with conditional prompt, option depending on a member"""
    return Tree(
        "T07",
        [
            Cfg("PREF", B, "pref"),
            Cfg("HIDE", B, "hide"),
            Choice(
                "CH",
                "ch",
                defaults=[("M2", "PREF"), ("M3", None)],
                children=[
                    Cfg("M1", B, "m1"),
                    Cfg("M2", B, "m2", prompt_if="!HIDE"),
                    Cfg("M3", B, "m3", depends=["!HIDE || PREF"]),
                ],
            ),
            Cfg("AFTER", B, "after", depends=["M2"], defaults=[("y", None)], help="One line."),
            Cfg("CNT", I, "cnt", defaults=[("2", "M2"), ("3", "M3"), ("1", None)]),
        ],
    )


def T08():
    """choice inside if, if inside choice, unnamed choice, choice depends on, choice with conditional prompt"""
    return Tree(
        "T08",
        [
            Cfg("EN", B, "en", defaults=[("y", None)]),
            Cfg("ALT", B, "alt"),
            If(
                "EN",
                [
                    Choice(
                        "C1",
                        "c1",
                        defaults=[("C1B", "ALT")],
                        children=[
                            Cfg("C1A", B, "c1a"),
                            If("ALT", [Cfg("C1B", B, "c1b")]),
                            Cfg("C1C", B, "c1c"),
                        ],
                    )
                ],
            ),
            Choice(
                None,
                "anon",
                depends=["ALT || C1A"],
                children=[Cfg("U1", B, "u1"), Cfg("U2", B, "u2")],
            ),
            Choice("C3", "c3", prompt_if="EN", defaults=[("C3B", None)], children=[Cfg("C3A", B, "c3a"), Cfg("C3A_DMA", B, "c3a dma", depends=["C3A"]), Cfg("C3B", B, "c3b"), Cfg("C3B_SPEED", I, "c3b speed", depends=["C3B"], defaults=[("10", None)])]),
        ],
    )


def T09():
    """menuconfig + children, implicit sub-menu, menu visible if on an outside option"""
    return Tree(
        "T09",
        [
            Cfg("SHOW", B, "show", defaults=[("y", None)]),
            Cfg("MC", B, "mc", menuconfig=True),
            Cfg("MC_A", B, "mc a", depends=["MC"], defaults=[("y", None)]),
            Cfg("MC_N", I, "mc n", depends=["MC"], defaults=[("4", None)], ranges=[("0", "8", None)]),
            Cfg("PAR", B, "par"),
            Cfg("CHILD", B, "child", depends=["PAR"]),
            Cfg("GRAND", S, "grand", depends=["CHILD"], defaults=[('"g"', None)]),
            Menu("vis", visible_if=["SHOW"], children=[Cfg("IN_V", B, "in v", defaults=[("y", "PAR")]), Cfg("IN_W", I, "in w", defaults=[("1", None)])]),
        ],
    )


def T10():
    """one option defined at two places with different deps / defaults / prompts"""
    return Tree(
        "T10",
        [
            Cfg("X", B, "x"),
            Cfg("Y", B, "y"),
            Cfg("MD", I, "md first", depends=["X"], defaults=[("1", None)]),
            Cfg("MD", I, "md second", depends=["Y"], defaults=[("2", None)], extra=["# ignore: multiple-definition"]),
            Cfg("MB", B, "mb first", depends=["X"]),
            Cfg("MB", B, None, defaults=[("y", "Y")], extra=["# ignore: multiple-definition"]),
            Cfg("USE", B, "use", depends=["MB && MD = 1"]),
        ],
    )


def T11():
    """relations between int, hex, string, bool options and constants"""
    return Tree(
        "T11",
        [
            Cfg("I1", I, "i1", defaults=[("5", None)], ranges=[("0", "20", None)]),
            Cfg("I2", I, "i2", defaults=[("5", None)]),
            Cfg("H1", H, "h1", defaults=[("0x5", None)]),
            Cfg("S1", S, "s1", defaults=[('"5"', None)]),
            Cfg("B1", B, "b1"),
            Cfg("R_LT", B, "lt", depends=["I1 < I2"]),
            Cfg("R_GE", B, "ge", depends=["I1 >= 10"], defaults=[("y", None)]),
            Cfg("R_EQH", B, "eqh", depends=["I1 = H1"], defaults=[("y", None)]),
            Cfg("R_NES", B, None, defaults=[("y", "S1 != I2")]),
            Cfg("R_B", B, None, defaults=[("y", "B1 = y && I2 <= 5")]),
        ],
    )


def T12():
    """promptless options (defaults on prompted ones; selected; implied)"""
    return Tree(
        "T12",
        [
            Cfg("U", B, "u"),
            Cfg("W", B, "w", selects=[("PS", None)], implies=[("PI", None)]),
            Cfg("PD", B, None, defaults=[("y", "U")]),
            Cfg("PS", B, None),
            Cfg("PI", B, None, depends=["U"]),
            Cfg("PN", I, None, defaults=[("3", "PD"), ("4", None)]),
            Cfg("PT", S, None, defaults=[('"t"', "PS")]),
            Cfg("VIS", B, "vis", depends=["PD || PS"], defaults=[("PI", None)]),
        ],
    )


def T13():
    """options of all kinds + rename files: several aliases, inversions, duplicates, lowercase, undefined target"""
    return Tree(
        "T13",
        [
            Cfg("NB", B, "nb", defaults=[("y", None)]),
            Cfg("NB2", B, "nb2", depends=["NB"]),
            Cfg("NI", I, "ni", defaults=[("5", None)]),
            Cfg("NS", S, "ns", defaults=[('"s"', None)]),
            Cfg("NH", H, "nh", defaults=[("0x10", None)]),
        ],
        renames=[
            [
                "# comment",
                "CONFIG_OB1 CONFIG_NB",
                "CONFIG_OB2 !CONFIG_NB",
                "CONFIG_OB3 CONFIG_NB",
                "CONFIG_OB2_2 CONFIG_NB2",
                "CONFIG_OI CONFIG_NI",
                "CONFIG_OS CONFIG_NS",
                "CONFIG_OH CONFIG_NH",
                "CONFIG_old_lower CONFIG_NS",
            ],
            [
                "CONFIG_OI2 CONFIG_NI",
                "CONFIG_OX CONFIG_UNDEFINED_NEW",
                "CONFIG_ODUP CONFIG_NB",
                "CONFIG_ODUP CONFIG_NB2",
                "CONFIG_OINV2 !CONFIG_NB2",
                "CONFIG_OFLIP CONFIG_NB",
                "CONFIG_OFLIP !CONFIG_NB",
                "CONFIG_OFLIP2 !CONFIG_NB2",
                "CONFIG_OFLIP2 CONFIG_NB2",
            ],
        ],
    )


def T13b():
    """rename shape stressing alias order: inverted alias before plain alias of the same option"""
    return Tree(
        "T13b",
        [
            Cfg("NB", B, "nb"),
            Cfg("NC", B, "nc", defaults=[("y", None)]),
            Cfg("NS", S, "ns", defaults=[('"s"', None)]),
            Cfg("ND", I, "nd", depends=["NB"], defaults=[("5", None)]),
            Cfg("NE", B, "ne", depends=["NC"], defaults=[("y", None)]),
            # left-over references to names that only exist as deprecated aliases (undefined symbols of the tree)
            Cfg("LEG", B, None, defaults=[("y", "OLD_E || INV_C || !PLAIN_AFTER")]),
        ],
        renames=[["CONFIG_OLD_D CONFIG_ND", "CONFIG_OLD_E CONFIG_NE", "CONFIG_OLD_E_INV !CONFIG_NE", "CONFIG_INV_FIRST !CONFIG_NB", "CONFIG_PLAIN_AFTER CONFIG_NB", "CONFIG_PLAIN_C CONFIG_NC", "CONFIG_INV_C !CONFIG_NC", "CONFIG_PLAIN_C2 CONFIG_NC", "CONFIG_OLD_S CONFIG_NS"]],
    )


def T14():
    """target constants and relations for the documentation generator"""
    return Tree(
        "T14",
        [
            Cfg("IDF_TARGET", S, None, defaults=[('"$IDF_TARGET"', None)]),
            Cfg("IDF_TARGET_ESP32", B, None, defaults=[("y", 'IDF_TARGET = "esp32"')]),
            Cfg("IDF_TARGET_ESP32C6", B, None, defaults=[("y", 'IDF_TARGET = "esp32c6"')]),
            Cfg("SOC_HAS_X", B, None, defaults=[("y", "IDF_TARGET_ESP32")]),
            Cfg("MODE", S, "mode", defaults=[('"slow"', None)]),
            Cfg("LVL", I, "lvl", defaults=[("3", None)], ranges=[("0", "9", None)]),
            Cfg("USR", B, "usr"),
            Cfg("D_TGT", B, "only esp32", depends=["IDF_TARGET_ESP32"]),
            Cfg("D_SOC", B, "soc", depends=["SOC_HAS_X && USR"]),
            Cfg("D_NE", B, "ne", depends=['MODE != "slow"']),
            Cfg("D_NE2", B, "ne2", depends=["LVL != 3 || USR"]),
            Cfg("D_LT", I, "lt", depends=["LVL < 5"], defaults=[("1", None)], ranges=[("0", "3", "USR"), ("0", "7", None)]),
            Cfg("D_C6", B, "c6", depends=["IDF_TARGET_ESP32C6 || USR"]),
            Cfg("FORCER", B, "forcer", depends=["USR"], selects=[("FORCED", None)]),
            Cfg("FORCED", B, "forced", depends=["!IDF_TARGET_ESP32C6"]),
            Cfg("GATE", B, "gate"),
            Cfg("EXTRA", B, "extra"),
            Cfg("SRC2", B, "src2", selects=[("TGT2", "GATE && EXTRA")], sets=[("TGTI", "5", "GATE")]),
            Cfg("TGT2", B, "tgt2", depends=["GATE"]),
            Cfg("TGTI", I, "tgti", depends=["GATE"], defaults=[("1", None)]),
            Menu("c6 extras", visible_if=["IDF_TARGET_ESP32C6"], children=[Cfg("SHARED", B, "shared (c6 menu)"), Cfg("ONLY_C6", B, "only c6")]),
            Menu("common", children=[Cfg("SHARED", B, "shared (common menu)", extra=["# ignore: multiple-definition"]), Cfg("USES_SHARED", B, "uses shared", depends=["SHARED"])]),
            Menu("common2", children=[Cfg("SHARED2", B, "shared2 (common menu)"), Cfg("USES_SHARED2", I, "uses shared2", depends=["SHARED2"], defaults=[("1", None)])]),
            Menu("esp32 extras", visible_if=["IDF_TARGET_ESP32"], children=[Cfg("SHARED2", B, "shared2 (esp32 menu)", extra=["# ignore: multiple-definition"])]),
            # a choice that exists for every target, with members that exist for one target only and that force / are
            # the default value of other documented options
            Choice("REV", "chip revision", children=[Cfg("REV_A", B, "rev a", depends=["IDF_TARGET_ESP32"]), Cfg("REV_B", B, "rev b", depends=["IDF_TARGET_ESP32C6"], selects=[("REVOPT", None)], sets=[("REVNUM", "3", None)]), Cfg("REV_C", B, "rev c")]),
            Cfg("REVOPT", B, "revopt"),
            Cfg("REVNUM", I, "revnum", defaults=[("1", None)]),
            Cfg("REVDEF", B, "revdef", defaults=[("REV_B", None)]),
        ],
    )


def T15():
    """ui: menus with visible if, menuconfig, implicit sub-menus, choice, numeric and string inputs"""
    return Tree(
        "T15",
        [
            Cfg("SHOW", B, "show", defaults=[("y", None)]),
            Menu(
                "top",
                children=[
                    Cfg("MC", B, "mc", menuconfig=True, defaults=[("y", None)]),
                    Cfg("MC_I", I, "mc i", depends=["MC"], defaults=[("4", None)], ranges=[("0", "8", None)]),
                    Cfg("MC_S", S, "mc s", depends=["MC"], defaults=[('"x"', None)]),
                    Menu("hidden", visible_if=["SHOW"], children=[Cfg("HV", B, "hv"), Cfg("HH", H, "hh", defaults=[("0x1", None)])]),
                ],
            ),
            Choice("UC", "uc", defaults=[("UC2", "SHOW")], children=[Cfg("UC1", B, "uc1"), Cfg("UC2", B, "uc2")]),
            Cfg("LOCK", B, "lock", selects=[("LOCKED", None)], sets=[("PIN", "9", None)]),
            Cfg("LOCKED", B, "locked", extra=['warning "locked is risky"']),
            Cfg("PIN", I, "pin", defaults=[("1", None)], extra=['warning "pin is risky"']),
            Cfg("RISKY", B, "risky", prompt_if="SHOW", extra=['warning "risky"'], help="Help of risky."),
        ],
    )


def T16():
    """forward references: options whose conditions refer to options defined later"""
    return Tree(
        "T16",
        [
            Cfg("X", I, "x", depends=["EN"], defaults=[("5", None)]),
            Cfg("XS", S, "xs", prompt_if="EN", defaults=[('"a"', "MODE2"), ('"b"', None)]),
            Cfg("EN", B, "en", defaults=[("y", None)]),
            Cfg("MODE2", B, "mode2", depends=["EN"]),
            Cfg("LATE", I, "late", defaults=[("X", "EN"), ("0", None)], ranges=[("0", "9", "MODE2")]),
        ],
    )


ALL = {f.__name__: f for f in (T16, T01, T02, T03, T04, T05, T05s, T06, T07, T08, T09, T10, T11, T12, T13, T13b, T14, T15)}


def get(tid):
    return ALL[tid]()
