"""Executable specification of Kconfig option values, written from docs/en/kconfiglib/language.rst, defaults.rst and
the statement of property C01 (plus the readings pinned down in DESIGN.md appendix A).  It works on the DSL AST of a
tree (vk.trees.dsl), never on a parsed Kconfig instance, so it is independent of both parsers and of the
dependency propagation in esp_kconfiglib.

  Spec(tree, vals).value(name) -> str        the option's value ("y"/"n" for bool)
  Spec(tree, vals).vis(name)   -> 0 | 2      is some prompt of the option visible
"""
import math

from .dsl import Cfg, Menu, If, Choice, Comment, parse_expr

N, Y = 0, 2


def _is_int(s, base):
    try:
        int(s, base)
        return True
    except ValueError:
        return False


def _is_float(s):
    try:
        return math.isfinite(float(s))
    except (ValueError, TypeError):
        return False


def _norm_float(s):
    try:
        return str(float(s))
    except ValueError:
        return s


BASE = {"int": 10, "hex": 16}


class Node:
    """one definition of an option, with the conditions inherited from its context"""

    def __init__(self, cfg, deps, visible_ifs, choice):
        self.cfg = cfg
        self.deps = deps  # list of parsed exprs: own depends on + enclosing ifs + enclosing menus' depends on
        self.visible_ifs = visible_ifs  # enclosing menus' visible if
        self.choice = choice  # key of enclosing choice or None


class ChoiceInfo:
    def __init__(self, key):
        self.key = key
        self.defs = []  # (Choice node, deps, visible_ifs)
        self.members = []  # option names in order


class Spec:
    def __init__(self, tree, vals):
        self.vals = vals  # name -> None | 0 | 2 | str ; "<pickN>" -> member name | None (N = choice order)
        self.nodes = {}  # name -> [Node]
        self.choices = {}  # key -> ChoiceInfo
        self.choice_order = []
        self.selects = {}  # target -> [(source Node, cond)]
        self.implies = {}
        self.sets = {}  # target -> [(source Node, value text, cond)]
        self.setdefs = {}
        self._walk(tree.children, [], [], None)
        self._val = {}
        self._vis = {}
        self._sel = {}

    # ------------------------------------------------------------------ structure
    @staticmethod
    def _conjunct_syms(exprs):
        """names X such that some condition is (an AND containing) X, X = y or X != n"""
        out = set()

        def rec(e):
            if e is None:
                return
            if e[0] == "sym":
                out.add(e[1])
            elif e[0] == "and":
                rec(e[1])
                rec(e[2])
            elif e[0] in ("=", "!=") and e[1][0] == "sym" and e[2][0] == "sym":
                a, b = e[1][1], e[2][1]
                if (e[0] == "=" and b == "y") or (e[0] == "!=" and b == "n"):
                    out.add(a)
                if (e[0] == "=" and a == "y") or (e[0] == "!=" and a == "n"):
                    out.add(b)

        for e in exprs:
            rec(e)
        return out

    def _walk(self, children, deps, vifs, choice):
        chain = []  # inside a choice: the current member and the options implicitly nested below it
        for n in children:
            if isinstance(n, Cfg):
                member_of = choice
                if choice is not None:
                    # language.rst / kconfiglib: an entry that depends on the preceding option becomes its child
                    # (implicit submenu); such an entry inside a choice block is not a choice member
                    own = [parse_expr(d) for d in n.depends] + ([parse_expr(n.prompt_if)] if n.prompt_if else [])
                    if chain and (self._conjunct_syms(own) & set(chain)):
                        member_of = None
                        chain.append(n.name)
                    else:
                        chain = [n.name]
                nd = Node(n, deps + [parse_expr(d) for d in n.depends], vifs, member_of)
                if choice is not None and member_of is None:
                    nd.deps = nd.deps + [("sym", choice)] if choice in self.choices and not choice.startswith("<anon") else nd.deps
                self.nodes.setdefault(n.name, []).append(nd)
                if member_of is not None and n.name not in self.choices[choice].members:
                    self.choices[choice].members.append(n.name)
                for t, c in n.selects:
                    self.selects.setdefault(t, []).append((nd, parse_expr(c)))
                for t, c in n.implies:
                    self.implies.setdefault(t, []).append((nd, parse_expr(c)))
                for t, v, c in n.sets:
                    self.sets.setdefault(t, []).append((nd, v, parse_expr(c)))
                for t, v, c in n.set_defaults:
                    self.setdefs.setdefault(t, []).append((nd, v, parse_expr(c)))
                if n.children:
                    self._walk(n.children, deps, vifs, choice)
            elif isinstance(n, Menu):
                self._walk(n.children, deps + [parse_expr(d) for d in n.depends], vifs + [parse_expr(v) for v in n.visible_if], choice)
            elif isinstance(n, If):
                self._walk(n.children, deps + [parse_expr(n.cond)], vifs, choice)
            elif isinstance(n, Choice):
                key = n.name if n.name else "<anon%d>" % id(n)
                if key not in self.choices:
                    self.choices[key] = ChoiceInfo(key)
                    self.choice_order.append(key)
                cdeps = deps + [parse_expr(d) for d in n.depends]
                self.choices[key].defs.append((n, cdeps, vifs))
                # a nested choice's members belong to the inner choice; members depend on the choice's own deps
                self._walk(n.children, cdeps, vifs, key)

    def type_of(self, name):
        return self.nodes[name][0].cfg.type if name in self.nodes else None

    # ------------------------------------------------------------------ expressions
    def tri(self, e):
        """truth value (0 / 2) of an expression; None = no condition = y"""
        if e is None:
            return Y
        k = e[0]
        if k == "sym":
            name = e[1]
            if name == "y":
                return Y
            if name == "n":
                return N
            if name in self.nodes:
                if self.type_of(name) == "bool":
                    return Y if self.value(name) == "y" else N
                return N  # non-bool options are n in a boolean context
            if name in self.choices:
                return self.choice_mode(name)
            return N  # undefined
        if k in ("lit", "str"):
            return Y if e[1] == "y" else N
        if k == "not":
            return Y - self.tri(e[1])
        if k == "and":
            a = self.tri(e[1])
            return N if a == N else min(a, self.tri(e[2]))
        if k == "or":
            a = self.tri(e[1])
            return Y if a == Y else max(a, self.tri(e[2]))
        return self._rel(k, e[1], e[2])

    def _operand(self, e):
        """-> (text value, kind) kind in bool/int/hex/string/float/unknown"""
        if e[0] == "sym":
            name = e[1]
            if name in self.nodes:
                return self.value(name), self.type_of(name)
            if name in ("y", "n"):
                return name, "boolconst"
            return name, "unknown"
        if e[0] == "str":
            return e[1], "string"
        return e[1], "unknown"

    @staticmethod
    def _num(text, kind):
        if kind in ("bool", "boolconst"):
            return Y if text == "y" else N
        base = {"int": 10, "hex": 16}.get(kind, 0)
        try:
            return int(text, base)
        except ValueError:
            return float(text)

    def _rel(self, op, a, b):
        va, ka = self._operand(a)
        vb, kb = self._operand(b)
        comp = None
        if not (ka == "string" and kb == "string"):
            try:
                d = self._num(va, ka) - self._num(vb, kb)
                comp = (d > 0) - (d < 0)
            except ValueError:
                comp = None
        if comp is None:
            comp = (va > vb) - (va < vb)
        r = {"=": comp == 0, "!=": comp != 0, "<": comp < 0, "<=": comp <= 0, ">": comp > 0, ">=": comp >= 0}[op]
        return Y if r else N

    def _all(self, exprs):
        v = Y
        for e in exprs:
            v = min(v, self.tri(e))
            if v == N:
                return N
        return v

    # ------------------------------------------------------------------ context conditions
    def node_dep(self, nd):
        v = self._all(nd.deps)
        if v and nd.choice is not None:
            v = min(v, self.choice_mode(nd.choice))
        return v

    def prompt_cond(self, nd):
        if nd.cfg.prompt is None:
            return N
        v = self.tri(parse_expr(nd.cfg.prompt_if))
        if v:
            v = min(v, self.node_dep(nd))
        if v:
            v = min(v, self._all(nd.visible_ifs))
        return v

    def direct_dep(self, name):
        return max(self.node_dep(nd) for nd in self.nodes[name])

    def vis(self, name):
        if name not in self._vis:
            self._vis[name] = max(self.prompt_cond(nd) for nd in self.nodes[name])
        return self._vis[name]

    # ------------------------------------------------------------------ choices
    def choice_vis(self, key):
        ci = self.choices[key]
        v = N
        for ch, deps, vifs in ci.defs:
            p = self.tri(parse_expr(ch.prompt_if))
            if p:
                p = min(p, self._all(deps), self._all(vifs))
            v = max(v, p)
        return v

    def choice_mode(self, key):
        return Y if self.choice_vis(key) else N

    def selection(self, key):
        if key in self._sel:
            return self._sel[key]
        ci = self.choices[key]
        sel = None
        if self.choice_mode(key):
            pick = self.vals.get("<pick%d>" % self.choice_order.index(key))
            if pick is not None and self.vis(pick):
                sel = pick
            else:
                for ch, deps, vifs in ci.defs:
                    for m, c in ch.defaults:
                        if sel is None and self.tri(parse_expr(c)) and self._all(deps) and self.vis(m):
                            sel = m
                if sel is None:
                    for m in ci.members:
                        if self.vis(m):
                            sel = m
                            break
        self._sel[key] = sel
        return sel

    # ------------------------------------------------------------------ values
    def user(self, name):
        """the user value as the setter keeps it (malformed values are ignored), or None"""
        v = self.vals.get(name)
        if v is None:
            return None
        t = self.type_of(name)
        if t == "bool":
            return v if v in (0, 2) else None
        if t == "int":
            return v if _is_int(v, 10) else None
        if t == "hex":
            return v if (_is_int(v, 16) and int(v, 16) >= 0) else None
        if t == "float":
            return _norm_float(v) if _is_float(v) else None
        return v

    def value(self, name):
        if name not in self._val:
            self._val[name] = "<evaluating>"
            t = self.type_of(name)
            if t == "bool":
                v = self._bool(name)
            elif t == "string":
                v = self._string(name)
            else:
                v = self._number(name, t)
            self._val[name] = v
        return self._val[name]

    def _defaults(self, name):
        for nd in self.nodes[name]:
            for val, cond in nd.cfg.defaults:
                yield nd, val, parse_expr(cond)

    def _rev(self, table, name):
        v = N
        for src, cond in table.get(name, []):
            s = Y if self.value(src.cfg.name) == "y" else N
            if s:
                s = min(s, self.tri(cond), self.node_dep(src))
            v = max(v, s)
        return v

    def _bool(self, name):
        nd0 = self.nodes[name][0]
        if nd0.choice is not None:
            if self.vis(name) == Y:
                return "y" if self.selection(nd0.choice) == name else "n"
            return "n"
        vis = self.vis(name)
        u = self.user(name)
        val = N
        if vis and u is not None:
            val = min(u, vis)
        else:
            for nd, dv, cond in self._defaults(name):
                c = min(self.tri(cond), self.node_dep(nd))
                if c:
                    val = min(self.tri(parse_expr(dv)), c)
                    break
            w = self._rev(self.implies, name)
            if w and self.direct_dep(name):
                val = max(val, w)
        val = max(val, self._rev(self.selects, name))
        return "y" if val == Y else "n"

    def _active_set(self, table, name, need_dep):
        """value text of the first enabled set / set default entry, or None"""
        for src, vtext, cond in table.get(name, []):
            if self.value(src.cfg.name) == "y" and self.tri(cond) and self.node_dep(src):
                if need_dep and not self.direct_dep(name):
                    continue
                return vtext
        return None

    def _text(self, vtext):
        """value of a default / set value token: option name -> its value, quoted string -> content, literal -> text"""
        e = parse_expr(vtext)
        if e[0] == "sym" and e[1] in self.nodes:
            return self.value(e[1])
        return e[1]

    def _string(self, name):
        f = self._active_set(self.sets, name, False)
        if f is not None:
            return self._text(f)
        u = self.user(name)
        if self.vis(name) and u is not None:
            return u
        val = ""
        w = self._active_set(self.setdefs, name, True)
        if w is not None:
            val = self._text(w)
        if not val:
            for nd, dv, cond in self._defaults(name):
                if self.tri(cond) and self.node_dep(nd):
                    val = self._text(dv)
                    break
        return val

    def _parse(self, text, t):
        """numeric value the way the C tools read it: unparsable -> 0"""
        try:
            return float(text) if t == "float" else int(text, BASE[t])
        except ValueError:
            return 0.0 if t == "float" else 0

    def _valid(self, text, t):
        return _is_float(text) if t == "float" else _is_int(text, BASE[t])

    def _number(self, name, t):
        rng = None
        for nd in self.nodes[name]:
            for lo, hi, cond in nd.cfg.ranges:
                if rng is None and self.tri(parse_expr(cond)) and self.node_dep(nd):
                    rng = (self._parse(self._text(lo), t), self._parse(self._text(hi), t))
        val = ""
        num = 0.0 if t == "float" else 0
        forced = False
        f = self._active_set(self.sets, name, False)
        if f is not None:
            ft = parse_expr(f)[1]  # the literal as written (an option name is not a number)
            if self._valid(ft, t):
                val = _norm_float(ft) if t == "float" else ft
                num = self._parse(val, t)
                forced = True
        use_defaults = not forced
        u = self.user(name)
        if not forced and self.vis(name) and u is not None and (t == "float" or u != ""):
            un = self._parse(u, t)
            if rng is None or rng[0] <= un <= rng[1]:
                val, num, use_defaults = u, un, False
        if use_defaults:
            w = self._active_set(self.setdefs, name, True)
            if w is not None:
                wt = parse_expr(w)[1]
                if self._valid(wt, t):
                    val = _norm_float(wt) if t == "float" else wt
                    num = self._parse(val, t)
            if not val:
                for nd, dv, cond in self._defaults(name):
                    if self.tri(cond) and self.node_dep(nd):
                        val = self._text(dv)
                        if t == "float":
                            val = _norm_float(val)
                        num = self._parse(val, t) if self._valid(val, t) else (0.0 if t == "float" else 0)
                        break
        if rng is not None:
            clamp = None
            if num < rng[0]:
                clamp = rng[0]
            elif num > rng[1]:
                clamp = rng[1]
            if clamp is not None:
                val = str(clamp) if t in ("int", "float") else hex(clamp)
        return val
