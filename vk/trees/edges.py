"""Tiny trees, one per dependency-edge kind: X (source) influences Y (dependent), often gated by G.
Small enough (<= 5 options) that every configuration x every operation is exhausted by the solver in seconds."""
from .dsl import Cfg, Menu, If, Choice, Comment, Tree

B, I, H, S, F = "bool", "int", "hex", "string", "float"


def _t(i, *ch, **kw):
    return Tree(i, list(ch), **kw)


def edge_trees():
    G = Cfg("G", B, "g")
    out = [
        _t("E_dep", Cfg("X", B, "x"), Cfg("Y", B, "y", depends=["X"], defaults=[("y", None)]), Cfg("Z", I, "z", depends=["Y"], defaults=[("3", None)])),
        _t("E_prompt_if", Cfg("X", B, "x"), Cfg("Y", B, "y", prompt_if="X", defaults=[("y", "!X")])),
        _t("E_default_cond", Cfg("X", B, "x"), Cfg("Y", I, "y", defaults=[("7", "X"), ("1", None)]), Cfg("W", B, None, defaults=[("y", "X")])),
        _t("E_default_order", Cfg("X", B, "x", defaults=[("y", None)]), Cfg("Y", B, "y", defaults=[("n", "X"), ("y", None)]), Cfg("YI", I, "yi", defaults=[("0", "X"), ("5", None)]), Cfg("Z", I, "z", depends=["Y"], defaults=[("3", None)])),
        _t("E_default_val", Cfg("X", I, "x", defaults=[("4", None)]), Cfg("Y", I, "y", defaults=[("X", None)]), Cfg("YS", S, "ys", defaults=[("X", None)])),
        _t("E_default_val_fwd", Cfg("Y", I, "y", defaults=[("X", None)]), Cfg("YS", S, "ys", defaults=[("XS", None)]), Cfg("X", I, "x", defaults=[("4", None)]), Cfg("XS", S, "xs", defaults=[('"a"', None)])),
        _t("E_default_bool", Cfg("X", B, "x"), G, Cfg("Y", B, "y", defaults=[("X", "G"), ("y", None)])),
        _t("E_range_bound", Cfg("X", I, "x", defaults=[("4", None)]), Cfg("Y", I, "y", ranges=[("X", "100", None)], defaults=[("1", None)]), Cfg("YH", I, "yh", ranges=[("0", "X", None)], defaults=[("50", None)])),
        _t("E_range_bound_dep", Cfg("G", B, "g", defaults=[("y", None)]), Cfg("X", I, "x", depends=["G"], defaults=[("8", None)]), Cfg("Y", I, "y", ranges=[("0", "X", None)], defaults=[("5", None)]), Cfg("XH", H, "xh", depends=["G"], defaults=[("0x20", None)]), Cfg("YH", H, "yh", ranges=[("0x0", "XH", None)], defaults=[("0x5", None)])),
        _t("E_setdef_range", Cfg("X", B, "x", defaults=[("y", None)], set_defaults=[("F", "9.5", None), ("N", "50", None), ("HX", "0x50", None)]), Cfg("F", F, "f", ranges=[("-1.0", "5.0", None)], defaults=[("1.0", None)]), Cfg("N", I, "n", ranges=[("-5", "10", None)], defaults=[("1", None)]), Cfg("HX", H, "hx", ranges=[("0x0", "0x10", None)], defaults=[("0x1", None)])),
        _t("E_range_cond", Cfg("X", B, "x"), Cfg("Y", I, "y", ranges=[("0", "10", "X"), ("0", "100", None)], defaults=[("50", None)]), Cfg("YH", H, "yh", ranges=[("0x0", "0x8", "X"), ("0x0", "0x20", None)], defaults=[("0x10", None)])),
        _t("E_select", Cfg("X", B, "x", selects=[("Y", None)]), Cfg("D", B, "d"), Cfg("Y", B, "y", depends=["D"]), Cfg("Z", B, "z", depends=["Y"], defaults=[("y", None)])),
        _t("E_select_cond", Cfg("X", B, "x"), Cfg("G", B, "g", selects=[("Y", "X")]), Cfg("Y", B, "y"), Cfg("Z", I, "z", defaults=[("2", "Y"), ("1", None)])),
        _t("E_imply", Cfg("X", B, "x", implies=[("Y", None)]), Cfg("D", B, "d", defaults=[("y", None)]), Cfg("Y", B, "y", depends=["D"]), Cfg("Z", B, None, defaults=[("y", "Y")])),
        _t("E_imply_cond", Cfg("X", B, "x"), Cfg("G", B, "g", implies=[("Y", "X")]), Cfg("Y", B, "y")),
        _t("E_set_src", Cfg("X", B, "x", sets=[("Y", "5", None)]), Cfg("D", B, "d", defaults=[("y", None)]), Cfg("Y", I, "y", depends=["D"], defaults=[("1", None)]), Cfg("Z", B, "z", depends=["Y = 5"])),
        _t("E_set_cond", Cfg("X", B, "x"), Cfg("G", B, "g", sets=[("Y", '"forced"', "X")]), Cfg("Y", S, "y", defaults=[('"d"', None)])),
        _t("E_set_val", Cfg("X", S, "x", defaults=[('"xv"', None)]), Cfg("G", B, "g", sets=[("Y", "X", None)]), Cfg("Y", S, "y", defaults=[('"d"', None)])),
        _t("E_set_val_int", Cfg("X", I, "x", defaults=[("4", None)]), Cfg("G", B, "g", sets=[("Y", "X", None)]), Cfg("Y", I, "y", defaults=[("1", None)])),
        _t("E_setdef_src", Cfg("X", B, "x", set_defaults=[("Y", "5", None)]), Cfg("D", B, "d", defaults=[("y", None)]), Cfg("Y", I, "y", depends=["D"], defaults=[("1", None)])),
        _t("E_setdef_promptless", Cfg("X", B, "x", defaults=[("y", None)], set_defaults=[("Y", '"on"', None), ("YI", "7", None)]), Cfg("D", B, "d", defaults=[("y", None)]), Cfg("Y", S, None, depends=["D"]), Cfg("YI", I, None, depends=["D"]), Cfg("Z", B, "z", depends=['Y = "on"'], defaults=[("y", None)])),
        _t("E_setdef_cond", Cfg("X", B, "x"), Cfg("G", B, "g", set_defaults=[("Y", '"weak"', "X")]), Cfg("Y", S, "y", defaults=[('"d"', None)])),
        _t("E_setdef_val", Cfg("X", S, "x", defaults=[('"xv"', None)]), Cfg("G", B, "g", set_defaults=[("Y", "X", None)]), Cfg("Y", S, "y", defaults=[('"d"', None)])),
        _t("E_if", Cfg("X", B, "x"), If("X", [Cfg("Y", B, "y", defaults=[("y", None)]), Cfg("YI", I, "yi", defaults=[("3", None)])])),
        _t("E_menu_dep", Cfg("X", B, "x"), Menu("m", depends=["X"], children=[Cfg("Y", S, "y", defaults=[('"d"', None)]), Cfg("YB", B, "yb")])),
        _t("E_menu_vis", Cfg("X", B, "x"), Menu("m", visible_if=["X"], children=[Cfg("Y", B, "y", defaults=[("y", None)]), Cfg("YI", I, "yi", defaults=[("3", None)])])),
        _t("E_visif_implicit", Cfg("X", B, "x"), Menu("m", visible_if=["X"], children=[Cfg("P", B, "p", defaults=[("y", None)]), If("P", [Cfg("Y", I, "y", defaults=[("3", None)]), Cfg("YS", S, "ys", defaults=[('"stock"', None)])]), Cfg("Q", B, "q", menuconfig=True, defaults=[("y", None)]), Menu("sub", depends=["Q"], children=[Cfg("Z", B, "z")])])),
        _t("E_sync_empty", Cfg("EN", B, "en", defaults=[("y", None)]), Cfg("S", S, "s", depends=["EN"]), Cfg("I", I, "i", depends=["EN"]), Cfg("H", H, "h", depends=["EN"], defaults=[("0x1", "S = \"p\"")])),
        _t("E_choice_default", Cfg("X", B, "x"), Choice("CH", "ch", defaults=[("M2", "X")], children=[Cfg("M1", B, "m1"), Cfg("M2", B, "m2")]), Cfg("Y", B, None, defaults=[("y", "M2")])),
        _t("E_choice_dep", Cfg("X", B, "x"), Choice("CH", "ch", depends=["X"], children=[Cfg("M1", B, "m1"), Cfg("M2", B, "m2")]), Cfg("Y", I, "y", defaults=[("1", "M1"), ("2", "M2"), ("0", None)])),
        _t("E_choice_member_dep", Cfg("X", B, "x"), Choice("CH", "ch", children=[Cfg("M1", B, "m1", depends=["X"]), Cfg("M2", B, "m2"), Cfg("M3", B, "m3", prompt_if="!X")]), Cfg("Y", B, "y", depends=["M1 || M3"])),
        _t("E_choice_prompt_if", Cfg("X", B, "x", defaults=[("y", None)]), Choice("CH", "ch", children=[Cfg("M1", B, "m1", prompt_if="X"), Cfg("M2", B, "m2"), Cfg("M3", B, "m3")]), Cfg("Y", B, None, defaults=[("y", "M1")])),
        _t("E_choice_late", Choice("CH", "ch", defaults=[("M2", "X"), ("M3", "I > 3")], children=[Cfg("M1", B, "m1"), Cfg("M2", B, "m2"), Cfg("M3", B, "m3")]), Cfg("X", B, "x"), Cfg("I", I, "i", defaults=[("1", None)])),
        _t("E_choice_nested", Choice("CH", "ch", defaults=[("M2", None)], children=[Cfg("M1", B, "m1"), Cfg("M1_SUB", B, "m1 sub", depends=["M1"]), Cfg("M2", B, "m2"), Cfg("M2_NUM", I, "m2 num", depends=["M2"], defaults=[("10", None)])]), Cfg("Y", B, None, defaults=[("y", "M2_NUM = 7")])),
        _t("E_rel_str", Cfg("X", S, "x", defaults=[('"a"', None)]), Cfg("Y", B, "y", depends=['X = "p"']), Cfg("Y2", B, None, defaults=[("y", 'X != "p"')]), Cfg("Y3", B, "y3", depends=['!X = "p"'], help="\nHelp text after a blank line.")),
        _t("E_rel_int", Cfg("X", I, "x", defaults=[("4", None)]), Cfg("K", I, "k", defaults=[("5", None)]), Cfg("Y", B, "y", depends=["X < K"]), Cfg("Y2", B, None, defaults=[("y", "X >= 100")])),
        _t("E_menuconfig", Cfg("X", B, "x", menuconfig=True), Cfg("Y", B, "y", depends=["X"], defaults=[("y", None)]), Cfg("YS", S, "ys", depends=["X && Y"], defaults=[('"s"', None)])),
        _t("E_multidef", Cfg("X", B, "x"), Cfg("G", B, "g"), Cfg("Y", I, "y1", depends=["X"], defaults=[("1", None)]), Cfg("Y", I, "y2", depends=["G"], defaults=[("2", None)], extra=["# ignore: multiple-definition"])),
        # the value of Y comes from elsewhere (set default / select); X reaches it only through `depends on`
        _t("E_dd_setdef", Cfg("S", B, "s", defaults=[("y", None)], set_defaults=[("Y", "5", None)]), Cfg("X", B, "x", defaults=[("y", None)]), Cfg("Y", I, None, depends=["X"]), Cfg("Z", B, "z", depends=["Y = 5"])),
        _t("E_dd_select", Cfg("S", B, "s", selects=[("Y", None)]), Cfg("X", B, "x", defaults=[("y", None)]), Cfg("Y", B, None, depends=["X"]), Cfg("Z", B, "z", depends=["Y"])),
        # several prompts on one definition: the last one wins, with its own condition
        _t("E_multi_prompt", Cfg("X", B, "x"), Cfg("Y", I, "y (advanced)", prompt_if="X", defaults=[("5", None)], extra=['prompt "y"']), Cfg("W", B, "w first", extra=['prompt "w (gated)" if X']), Choice("CH", "ch (advanced)", prompt_if="X", children=[Cfg("M1", B, "m1"), Cfg("M2", B, "m2")], extra=['prompt "ch"'])),
        # defaults in one place, the prompt in a later definition
        _t("E_multidef_late", Cfg("X", B, "x"), Cfg("Y", B, None, defaults=[("y", "X")]), Cfg("Y", B, "y late", extra=["# ignore: multiple-definition"]), Cfg("Z", I, "z", depends=["Y"], defaults=[("3", None)]), Cfg("YI", I, None, defaults=[("4", None)]), Cfg("YI", I, "yi late", extra=["# ignore: multiple-definition"]), Cfg("W", B, "w", depends=["YI = 7"])),
        _t("E_hexfloat", Cfg("X", H, "x", defaults=[("0x10", None)]), Cfg("Y", H, "y", ranges=[("X", "0xff", None)], defaults=[("0x20", None)]), Cfg("FX", F, "fx", defaults=[("1.5", None)]), Cfg("FY", F, "fy", ranges=[("0.0", "FX", None)], defaults=[("1.0", None)])),
    ]
    return out


ALL = None


def get(tid):
    global ALL
    if ALL is None:
        ALL = {t.id: t for t in edge_trees()}
    return ALL[tid]


def ids():
    get("E_dep")
    return list(ALL)
