"""Produces every output format with the real writers (on memfs) and reads them back with small trusted readers."""
import re

from .state import K
from .shims import install_fs

import kconfgen.core as G
from .shims import install_log

install_log(G)

_UNESC = re.compile(r"\\(.)")


def unesc(s):
    return _UNESC.sub(r"\1", s)


def produce(k, fs, wd=False, d="/m/out"):
    """-> dict of texts / objects: sdkconfig, header, cmake, json, autoconf"""
    install_fs(fs, K, G)
    fs.makedirs(d, exist_ok=True)
    k.write_config(d + "/sdkconfig", write_deprecated=wd)
    k.write_autoconf(d + "/sdkconfig.h", header="", write_deprecated=wd)
    G.write_cmake(k, d + "/sdkconfig.cmake", write_deprecated=wd)
    js = G.get_json_values(k)
    k._write_old_vals(d)
    return {
        "sdkconfig": fs.read(d + "/sdkconfig"),
        "header": fs.read(d + "/sdkconfig.h"),
        "cmake": fs.read(d + "/sdkconfig.cmake"),
        "json": js,
        "autoconf": fs.read(d + "/auto.conf"),
    }


def read_sdkconfig(text):
    """-> (main: {name: raw value | None for 'is not set'}, deprecated block likewise, defaults: set of names)"""
    main, dep, dflt = {}, {}, set()
    cur = main
    mark = False
    for line in text.split("\n"):
        if line == "# default:":
            mark = True
            continue
        if line == "# Deprecated options for backward compatibility":
            cur = dep
            continue
        if line == "# End of deprecated options":
            cur = main
            continue
        if line.startswith("CONFIG_") and "=" in line:
            n, v = line[7:].split("=", 1)
            cur[n] = v
            if mark:
                dflt.add(n)
        elif line.startswith("# CONFIG_") and line.endswith(" is not set"):
            n = line[9:-11]
            cur[n] = None
            if mark:
                dflt.add(n)
        mark = False
    return main, dep, dflt


def read_header(text):
    """-> {name: raw value text}"""
    out = {}
    for line in text.split("\n"):
        if line.startswith("#define CONFIG_"):
            rest = line[15:]
            n, _, v = rest.partition(" ")
            out[n] = v
    return out


def read_cmake(text):
    """-> ({name: raw text inside quotes}, configs_list)"""
    out = {}
    lst = []
    for line in text.split("\n"):
        if line.startswith("set(CONFIGS_LIST "):
            body = line[len("set(CONFIGS_LIST ") : -1]
            lst = [x for x in body.split(";") if x]
        elif line.startswith("set(CONFIG_") and line.endswith('")'):
            n, _, v = line[11:-2].partition(' "')
            if n in out and out[n] != v:
                v = "<conflicting definitions>"  # the same variable set twice to different values agrees with nothing
            out[n] = v
    return out, lst


def canon(kind, fmt, raw):
    """canonical python value of option of type `kind` as format `fmt` encodes it; raises on malformed"""
    if kind == "bool":
        if fmt == "sdkconfig":
            return raw == "y" if raw is not None else False
        if fmt == "header":
            return raw == "1"
        if fmt == "cmake":
            return raw == "y"
        if fmt == "json":
            return bool(raw)
    if kind == "string":
        if fmt in ("sdkconfig", "header"):
            assert raw[0] == '"' and raw[-1] == '"'
            return unesc(raw[1:-1])
        if fmt == "cmake":
            return unesc(raw)
        return raw
    if kind == "int":
        return raw if fmt == "json" else int(raw)
    if kind == "hex":
        return raw if fmt == "json" else int(raw, 16)
    if kind == "float":
        return raw if fmt == "json" else float(raw)
    raise ValueError(kind)
