"""Trees on disk, instances, symbolic configuration descriptors, snapshots."""
import atexit
import os
import shutil
import tempfile

from .shims import notrace, LOG, install_log
from .trees import templates, dsl

os.environ.setdefault("KCONFIG_REPORT_VERBOSITY", "quiet")

import esp_kconfiglib.core as K  # noqa: E402
import esp_kconfiglib.report as R  # noqa: E402
import esp_kconfiglib.deprecated as DEP  # noqa: E402

import esp_kconfiglib.kconfig_parser as KP  # noqa: E402
import esp_kconfiglib.kconfig_grammar as KG  # noqa: E402

install_log(K, R, DEP, KP, KG)

_SCRATCH = None
_FILES = {}
_EXTRA_TREES = {}  # id -> dsl.Tree registered at run time (generated trees, mutants)

from . import REPO  # noqa: E402

FIXROOT = REPO + "/test"


def scratch():
    global _SCRATCH
    if _SCRATCH is None:
        _SCRATCH = tempfile.mkdtemp(prefix="vktrees-")
        atexit.register(shutil.rmtree, _SCRATCH, True)
    return _SCRATCH


def register_tree(tree):
    _EXTRA_TREES[tree.id] = tree
    _FILES.pop(tree.id, None)


def get_tree(tid):
    """DSL tree for `tid` or None for fixture trees (ids starting with 'F:' are paths below /repo/test).
    Trees are built once per process, outside tracing, and treated as read-only."""
    if tid in _EXTRA_TREES:
        return _EXTRA_TREES[tid]
    with notrace():
        t = _get_tree(tid)
        if t is not None:
            _EXTRA_TREES[tid] = t
    return t


def _get_tree(tid):
    if tid.startswith("R") and tid[1:].isdigit():
        from .trees import gen

        with notrace():  # (generation uses `random`; it must not run under tracing)
            _EXTRA_TREES[tid] = gen.random_tree(int(tid[1:]))
        return _EXTRA_TREES[tid]
    if tid.startswith("F:") or tid.startswith("V:"):
        return None
    if tid.startswith("E_") and ":" not in tid:
        from .trees import edges

        return edges.get(tid)
    if ":" in tid:  # mutant ids "T03:mutator:arg" are resolved by vk.trees.mutate
        from .trees import mutate

        return mutate.resolve(tid)
    return templates.get(tid)


def tree_file(tid):
    if tid in _FILES:
        return _FILES[tid]
    if tid.startswith("F:"):
        p = os.path.join(FIXROOT, tid[2:])
    elif tid.startswith("V:"):
        # multi-file programs kept under vk/trees/files/ (sources in sub-directories)
        p = os.path.join(os.path.dirname(os.path.abspath(__file__)), "trees", "files", tid[2:])
    else:
        t = get_tree(tid)
        p = os.path.join(scratch(), "Kconfig." + "".join(c if c.isalnum() else "_" for c in tid))
        with open(p, "w") as f:
            f.write(dsl.render(t))
        for i, lines in enumerate(t.renames):
            with open(p + ".rename%d" % i, "w") as f:
                f.write("\n".join(lines) + "\n")
    _FILES[tid] = p
    return p


def rename_files(tid):
    t = get_tree(tid)
    p = tree_file(tid)
    if t is None:
        return []
    return [p + ".rename%d" % i for i in range(len(t.renames))]


def build(tid, parser_version=None, renames=False, env=None):
    """A fresh real Kconfig instance for tree `tid` (parsing runs outside tracing: the text is concrete)."""
    with notrace():
        R.KconfigReport._instance = None
        old = {}
        env = dict(env or {})
        if tid.startswith("V:srcnest/"):
            env.setdefault("srcnest_dir", os.path.dirname(tree_file(tid)))
        if tid.startswith("F:gen_kconfig_doc/"):
            env.setdefault("srctree", FIXROOT + "/gen_kconfig_doc")
            env.setdefault("IDF_TARGET", os.environ.get("IDF_TARGET", "chipa"))
        env.setdefault("IDF_TARGET", "esp32")
        if tid.startswith("F:kconfiglib/kconfigs/"):
            # environment the repository's own tests give these fixtures
            env.setdefault("TEST_FILE_PREFIX", FIXROOT + "/kconfiglib/kconfigs/ok/kconfigs_for_sourcing")
            env.setdefault("TEST_ENV_SET", "y")
            env.setdefault("MAX_NUMBER_OF_MOTORS", "4")
        for k, v in env.items():
            old[k] = os.environ.get(k)
            os.environ[k] = v
        try:
            kw = {}
            if parser_version is not None:
                kw["parser_version"] = parser_version
            k = K.Kconfig(tree_file(tid), **kw)
            if renames:
                rf = rename_files(tid)
                if rf:
                    k.load_rename_files(rf)
        finally:
            for kk, v in old.items():
                if v is None:
                    os.environ.pop(kk, None)
                else:
                    os.environ[kk] = v
        return k


# ------------------------------------------------------------------------------------ descriptors

INT_CANDS = ["-3", "+5", "007", " 7", "1_0", "0x10", "1e3", "", "18446744073709551616", "abc", "5.0"]
HEX_CANDS = ["0x1f", "0X1F", "1f", "001f", "-0x1", "zz", "0x", "0x0", "0xfffff", "0x10", "0xff", "0x100", "", "12"]
FLOAT_CANDS = ["5", "5.0", "1e3", "-0.5", ".5", "nan", "inf", "1,5", "0.5", "9.5", "9.6", "0.49", "abc", "", "1_0.0", " 2.5"]
STR_CANDS = ["", "a", "fast", "slow", 'q"t', "b\\s", "#c", " sp ", "$X", "é", "y", "n", "s"]

_LAYOUTS = {}


class Slot:
    __slots__ = ("name", "kind", "choice", "params", "members")

    def __init__(self, name, kind, choice=None, members=None):
        self.name = name
        self.kind = kind  # bool int hex float string pick
        self.choice = choice  # index of the choice in k.unique_choices for members / picks
        self.members = members
        self.params = []


def layout(tid, settable_only=False):
    """Slots of the tree derived from the *real* parsed instance (names, types, choice membership)."""
    key = (tid, settable_only)
    if key in _LAYOUTS:
        return _LAYOUTS[key]
    k = build(tid)
    slots = []
    for s in k.unique_defined_syms:
        if s.env_var is not None:
            continue
        if settable_only and not any(n.prompt for n in s.nodes):
            continue
        kind = {K.BOOL: "bool", K.INT: "int", K.HEX: "hex", K.STRING: "string", K.FLOAT: "float"}.get(s.orig_type)
        if kind is None:
            continue
        ci = k.unique_choices.index(s.choice) if s.choice is not None else None
        slots.append(Slot(s.name, kind, ci))
    for ci, c in enumerate(k.unique_choices):
        slots.append(Slot("<pick%d>" % ci, "pick", ci, [m.name for m in c.syms]))
    _LAYOUTS[key] = slots
    return slots


class Dom:
    """Value-domain sizes per tier (the bounds of the symbolic configuration)."""

    def __init__(self, int_max=100000, str_len=2, int_cands=True, str_mode="sym", hex_cands=None, float_cands=None, str_cands=None):
        self.int_max = int_max
        self.str_len = str_len
        self.int_cands = INT_CANDS if int_cands is True else (int_cands or [])
        self.hex_cands = HEX_CANDS if hex_cands is None else hex_cands
        self.float_cands = FLOAT_CANDS if float_cands is None else float_cands
        self.str_mode = str_mode  # "sym" symbolic str | "cand" candidate list
        self.str_cands = STR_CANDS if str_cands is None else str_cands

    def to_json(self):
        return self.__dict__

    @staticmethod
    def from_json(d):
        x = Dom()
        x.__dict__.update(d)
        return x


def params_for(slots, dom, prefix="", fixed=None):
    """-> (params, pre) for the engine: typed parameter list and bounds expression.
    `fixed` maps slot name -> concrete encoded value (that slot then takes no parameter)."""
    params = []
    pre = []
    fixed = fixed or {}
    for i, sl in enumerate(slots):
        sl_p = []
        if sl.name in fixed:
            continue
        p = "%s%s%d" % (prefix, {"bool": "b", "int": "i", "hex": "h", "float": "f", "string": "s", "pick": "p"}[sl.kind], i)
        if sl.kind == "bool":
            params.append((p, "int"))
            pre.append("0 <= %s <= 2" % p)
        elif sl.kind == "int":
            params.append((p, "int"))
            pre.append("%d <= %s <= %d" % (-1 - len(dom.int_cands), p, dom.int_max))
        elif sl.kind == "hex":
            params.append((p, "int"))
            pre.append("0 <= %s <= %d" % (p, len(dom.hex_cands)))
        elif sl.kind == "float":
            params.append((p, "int"))
            pre.append("0 <= %s <= %d" % (p, len(dom.float_cands)))
        elif sl.kind == "string":
            if dom.str_mode == "sym":
                params.append((p + "u", "int"))
                params.append((p, "str"))
                pre.append("0 <= %su <= 1" % p)
                pre.append("len(%s) <= %d" % (p, dom.str_len))
            else:
                params.append((p, "int"))
                pre.append("0 <= %s <= %d" % (p, len(dom.str_cands)))
        elif sl.kind == "pick":
            params.append((p, "int"))
            pre.append("0 <= %s <= %d" % (p, len(sl.members)))
    return params, " and ".join(pre) if pre else "True"


def decode(slots, dom, args, fixed=None):
    """args (in params_for order) -> dict slot name -> user value spec:
       None = unset; for bool 0/2; for others the string; for picks: member name or None"""
    fixed = fixed or {}
    out = {}
    it = iter(args)
    for sl in slots:
        if sl.name in fixed:
            out[sl.name] = fixed[sl.name]
            continue
        if sl.kind == "bool":
            u = next(it)
            out[sl.name] = None if u == 0 else (0 if u == 1 else 2)
        elif sl.kind == "int":
            v = next(it)
            if v == -1:
                out[sl.name] = None
            elif v >= 0:
                out[sl.name] = str(v)
            else:
                out[sl.name] = dom.int_cands[-2 - v]
        elif sl.kind == "hex":
            v = next(it)
            out[sl.name] = None if v == 0 else dom.hex_cands[v - 1]
        elif sl.kind == "float":
            v = next(it)
            out[sl.name] = None if v == 0 else dom.float_cands[v - 1]
        elif sl.kind == "string":
            if dom.str_mode == "sym":
                u = next(it)
                s = next(it)
                out[sl.name] = None if u == 0 else s
            else:
                v = next(it)
                out[sl.name] = None if v == 0 else dom.str_cands[v - 1]
        elif sl.kind == "pick":
            v = next(it)
            out[sl.name] = None if v == 0 else sl.members[v - 1]
    return out


def apply_state(k, slots, vals):
    """Canonical public-API recipe producing the user state `vals` (see DESIGN 3.3)."""
    picks = {sl.choice: vals.get(sl.name) for sl in slots if sl.kind == "pick"}
    # 1. choice members that keep user value y but are not the pick
    for sl in slots:
        if sl.kind == "bool" and sl.choice is not None and vals.get(sl.name) == 2 and picks.get(sl.choice) != sl.name:
            k.syms[sl.name].set_value(2)
    # 2. the picks
    for ci, m in picks.items():
        if m is not None:
            k.syms[m].set_value(2)
    # 3. everything else (and the pick's own final user value if it is not y)
    for sl in slots:
        if sl.kind == "pick":
            continue
        v = vals.get(sl.name)
        sym = k.syms[sl.name]
        if sl.kind == "bool" and sl.choice is not None:
            if v == 2:
                continue
            if picks.get(sl.choice) == sl.name:
                if v is None:
                    sym.unset_value()
                else:
                    sym.set_value(0)
            elif v == 0:
                sym.set_value(0)
            continue
        if v is None:
            continue
        sym.set_value(v)


def user_state(k):
    """The final user values / picks of an instance (for rebuilding a fresh one)."""
    vals = {}
    for s in k.unique_defined_syms:
        vals[s.name] = s._user_value
    picks = [c._user_selection.name if c._user_selection is not None else None for c in k.unique_choices]
    return vals, picks


def apply_user_state(k, vals, picks):
    for ci, c in enumerate(k.unique_choices):
        for m in c.syms:
            if vals.get(m.name) == 2 and picks[ci] != m.name:
                m.set_value(2)
        if picks[ci] is not None:
            k.syms[picks[ci]].set_value(2)
    for s in k.unique_defined_syms:
        v = vals.get(s.name)
        if s.choice is not None:
            ci = k.unique_choices.index(s.choice)
            if v == 2:
                continue
            if picks[ci] == s.name:
                if v is None:
                    s.unset_value()
                else:
                    s.set_value(0)
            elif v == 0:
                s.set_value(0)
            continue
        if v is not None:
            s.set_value(v)


def snapshot(k, reverse=False):
    syms = list(k.unique_defined_syms)
    if reverse:
        syms = syms[::-1]
    out = []
    for s in syms:
        out.append((s.name, s.str_value, s.visibility, tuple(s.assignable), s.config_string))
    if reverse:
        out = out[::-1]
    sel = []
    for c in k.unique_choices:
        x = c.selection
        sel.append((c.syms[0].name if c.syms else "", x.name if x is not None else None, c.visibility, c.str_value))
    sel.sort()  # parser 1 and 2 number nested choices differently; the order carries no meaning
    return out, sel


def values(k):
    return [(s.name, s.str_value) for s in k.unique_defined_syms]


# ------------------------------------------------------------------------------------- partitioning


def slot_values(sl, dom):
    """decoded concrete values a slot may be fixed to (a few representatives per kind)"""
    if sl.kind == "bool":
        return [None, 0, 2]
    if sl.kind == "int":
        return ([None, "0", "5", "77", "100000"] if dom.int_max >= 0 else [None]) + list(dom.int_cands[:2])
    if sl.kind == "hex":
        return [None] + list(dom.hex_cands)
    if sl.kind == "float":
        return [None] + list(dom.float_cands)
    if sl.kind == "string":
        return [None] + (list(dom.str_cands) if dom.str_mode == "cand" else ["", "a", 'q"'])
    return [None] + list(sl.members)


def slot_weight(sl, dom):
    if sl.kind == "bool":
        return 3
    if sl.kind == "int":
        return 1 + len(dom.int_cands) + (3 if dom.int_max >= 0 else 0)
    if sl.kind == "hex":
        return 1 + len(dom.hex_cands)
    if sl.kind == "float":
        return 1 + len(dom.float_cands)
    if sl.kind == "string":
        return (1 + len(dom.str_cands)) if dom.str_mode == "cand" else 12
    return 1 + len(sl.members)


def partitions(slots, dom, budget, nparts, rng, must_free=(), fix_first="values"):
    """-> list of `fixed` dicts.  If the whole space fits the path budget: one partition with nothing fixed
    (complete).  Otherwise `nparts` partitions, each fixing a seeded selection of slots to seeded representative
    values until the free remainder fits (sampled partitioning: stated as such in the evidence)."""
    total = 1
    for sl in slots:
        total *= slot_weight(sl, dom)
    if total <= budget:
        return [{}], True
    parts = []
    for _ in range(nparts):
        order = [sl for sl in slots if sl.name not in must_free]
        rng.shuffle(order)
        # fix the value-carrying options first: bools (the variables of almost every condition) and choice picks
        # stay symbolic as long as possible
        # (fix_first="bools" for checks whose subject is the numeric values themselves)
        valk = ("int", "hex", "float", "string")
        order.sort(key=lambda sl: (0 if sl.kind in valk else 1) if fix_first == "values" else (1 if sl.kind in valk else 0))
        fixed = {}
        w = total
        for sl in order:
            if w <= budget:
                break
            fixed[sl.name] = rng.choice(slot_values(sl, dom))
            w //= slot_weight(sl, dom)
        # a fixed pick must be consistent: nothing to do, apply_state handles any combination
        parts.append(fixed)
    return parts, False


def referenced_names(tid):
    """names of options that some expression / value of the tree refers to (from the DSL AST; fixtures: all)"""
    t = get_tree(tid)
    if t is None:
        return None
    acc = set()

    def visit(n, ctx):
        from .trees.dsl import Cfg, Menu, If, Choice, Comment, parse_expr, expr_syms

        exprs = []
        if isinstance(n, Cfg):
            exprs += [n.prompt_if] + list(n.depends) + [c for _, c in n.defaults] + [v for v, _ in n.defaults]
            for lo, hi, c in n.ranges:
                exprs += [lo, hi, c]
            exprs += [c for _, c in n.selects] + [c for _, c in n.implies]
            for _, v, c in list(n.sets) + list(n.set_defaults):
                exprs += [v, c]
        elif isinstance(n, Menu):
            exprs += list(n.depends) + list(n.visible_if)
        elif isinstance(n, If):
            exprs.append(n.cond)
        elif isinstance(n, Choice):
            exprs += [n.prompt_if] + list(n.depends) + [c for _, c in n.defaults]
        elif isinstance(n, Comment):
            exprs += list(n.depends)
        for e in exprs:
            if e:
                try:
                    expr_syms(parse_expr(e), acc)
                except Exception:
                    pass

    from .trees.dsl import walk

    walk(t.children, visit)
    return acc
