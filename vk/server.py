"""In-process driver for kconfserver.run_server with json / sys shims (requests and replies are Python objects)."""
import copy
import json as _json
import sys as _sys

from .state import K
from . import state as ST
from .shims import install_fs, install_log, LOG, notrace

import kconfserver.core as S
import kconfgen.core as G

install_log(S, G)


class Bad:
    """marker: a line that is not JSON"""


class _Json:
    JSONDecodeError = _json.JSONDecodeError

    def __init__(self, io):
        self.io = io

    def loads(self, line):
        req = self.io.reqs[int(line[1:])]
        if isinstance(req, Bad):
            raise _json.JSONDecodeError("Expecting value", "x", 0)
        return copy.deepcopy(req)

    def dump(self, obj, fp, **kw):
        if fp is not self.io.stdout:
            raise AssertionError("json.dump to something else than stdout")
        self.io.stdout.items.append(("json", obj))

    def dumps(self, obj, **kw):
        return _json.dumps(obj, **kw)

    def load(self, fp):
        raise NotImplementedError


class _Out:
    def __init__(self):
        self.items = []

    def write(self, t):
        self.items.append(("raw", t))

    def flush(self):
        pass


class _In:
    def __init__(self, n):
        self.n = n
        self.i = 0

    def readline(self):
        if self.i >= self.n:
            return ""
        self.i += 1
        return "L%d" % (self.i - 1)


class _Sys:
    def __init__(self, io):
        self.stdin = io.stdin
        self.stdout = io.stdout
        self.stderr = _sys.stderr

    def __getattr__(self, name):
        return getattr(_sys, name)


class IO:
    def __init__(self, reqs):
        self.reqs = reqs
        self.stdin = _In(len(reqs))
        self.stdout = _Out()


def run(tid, fs, sdkconfig, reqs, version=3, renames=None):
    """runs the real run_server over `reqs`; returns (replies, protocol_ok, config)"""
    io = IO(reqs)
    S.json = _Json(io)
    S.sys = _Sys(io)
    install_fs(fs, K, G, S)
    with notrace():
        ST.R.KconfigReport._instance = None
    n0 = len(LOG.calls)
    holder = {}
    real_kconfig = K.Kconfig

    def kc(path, *a, **k):
        with notrace():
            holder["k"] = real_kconfig(path, *a, **k)
        return holder["k"]

    S.kconfiglib.Kconfig = kc
    try:
        S.run_server(ST.tree_file(tid), sdkconfig, renames, default_version=version)
    finally:
        S.kconfiglib.Kconfig = real_kconfig
    items = io.stdout.items
    kinds = [k for k, _ in items]
    ok = kinds == ["json", "raw"] * (1 + len(reqs)) and all(v == "\n" for k, v in items if k == "raw")
    ok = ok and not any(dest == "stdout" for _, dest in LOG.calls[n0:])
    replies = [v for k, v in items if k == "json"]
    return replies, ok, holder.get("k")
