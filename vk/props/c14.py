"""C14 -- the config server's incremental replies keep a client exactly in sync (and what it sees is what save writes)."""
import random

from .. import state as ST
from ..state import K, Dom
from ..shims import MemFS
from .. import server as SV
from .common import state_jobs, decode_state
from .c15 import mkreq, _names, _fs, pick

REGION_RANGE = "range_of_visible_option_disappears"

INFO = {
    "bounds": {
        "quick": "trees T03, T07, T01 (and a slice of F:kconfserver/Kconfig) x protocol versions 1-3: server started on the sdkconfig of a (sampled) user state; model client applies the initial message and the replies to 1-2 symbolic requests (set of one or two entries with values of any JSON type, reset of option / menu id / all, load, save; valid and invalid targets), then a save; a fresh server started on the saved file must report the client's state",
        "thorough": "more trees, three requests",
    },
    "outside": ["request sequences longer than the bound", "the C-level JSON codec"],
    "stubs": ["json / sys shims", "memfs", "model client: four dicts updated by dict.update with each reply (v1: a null value marks the option invisible)"],
}
BUDGET = {"quick": 240, "thorough": 800}


class Client:
    def __init__(self, init, version):
        self.v = version
        self.values = dict(init["values"])
        self.ranges = dict(init["ranges"])
        self.visible = dict(init.get("visible", {}))
        self.defaults = dict(init.get("defaults", {}))
        self.hidden = set()  # v1: options reported with value null

    def apply(self, reply):
        for k, v in reply.get("values", {}).items():
            if self.v == 1 and v is None:
                self.hidden.add(k)
                continue
            self.hidden.discard(k)
            self.values[k] = v
        self.ranges.update(reply.get("ranges", {}))
        self.visible.update(reply.get("visible", {}))
        self.defaults.update(reply.get("defaults", {}))


def sync(ctx, *args):
    tid, dom, slots, vals = decode_state(ctx, args)
    n = ctx["nstate"]
    V = ctx["version"]
    k = ST.build(tid)
    ST.apply_state(k, slots, vals)
    text = k._config_contents("")
    names = ctx["names"]
    reqs = []
    rest = args[n:]
    for j in range(ctx["nreq"]):
        kind, vc, t, vt, i, s, b = rest[7 * j : 7 * j + 7]
        r = mkreq(names, ctx["kinds"][j], 99, t, vt, i, s, b)
        r["version"] = V
        reqs.append(r)
    if ctx.get("combine") and reqs and isinstance(reqs[-1], dict) and "save" not in reqs[-1]:
        # the documented protocol allows several keys in one request: the file is saved by the request that also
        # sets / resets, so it must hold the configuration the reply to that request describes
        reqs[-1]["save"] = "/m/final"
    else:
        reqs.append({"version": V, "save": "/m/final"})
    fs = _fs(text)
    replies, ok, kc = SV.run(tid, fs, "/m/sdkconfig", reqs, version=V)
    if not ok:
        return False
    cl = Client(replies[0], V)
    for r in replies[1:]:
        cl.apply(r)
    if fs.read("/m/final") is None:
        return False
    fresh, ok2, kf = SV.run(tid, fs, "/m/final", [], version=V)
    if not ok2:
        return False
    if not _same(cl, fresh[0], kf, V, ctx):
        return False
    # a successful `load` as the last request: the client must also agree with a server freshly started on that file
    last = reqs[-2] if len(reqs) >= 2 else None
    if isinstance(last, dict) and isinstance(last.get("load"), str) and fs.isfile(last["load"]) and not replies[-2].get("error"):
        fresh2, ok3, kf2 = SV.run(tid, fs, last["load"], [], version=V)
        if not ok3 or not _same(cl, fresh2[0], kf2, V, ctx):
            return False
    return True


def _same(cl, f, kf, V, ctx):
    if V == 1:
        for name, v in f["values"].items():
            s_ = kf.syms.get(name)
            if s_ is not None and s_.visibility:
                if name in cl.hidden or cl.values.get(name, None) != v:
                    return False
        for name, v in f["ranges"].items():
            s_ = kf.syms.get(name)
            if s_ is not None and s_.visibility and list(cl.ranges.get(name, ())) != list(v):
                return False
        return True
    for name, v in f["values"].items():
        if name not in cl.values or cl.values[name] != v:
            return False
    for name in cl.values:
        if name not in f["values"] and cl.visible.get(name, None) is not False:
            return False  # an option missing from the fresh state must have been reported invisible
    if cl.visible != f["visible"]:
        return False
    for name, v in f["ranges"].items():
        if list(cl.ranges.get(name, ())) != list(v):
            return False
    for name in cl.ranges:
        if name not in f["ranges"] and cl.visible.get(name, None) is not False:
            if REGION_RANGE in ctx.get("skip", []):
                continue
            return False  # stale range on an option the client believes visible
    if V >= 3:
        # options the fresh state does not show are only required to be reported invisible; a user value kept on a
        # hidden option is not written by save, so its user/default status is not comparable
        for name, v in f["defaults"].items():
            if f["visible"].get(name, False) and cl.defaults.get(name, None) != v:
                return False
    return True


def jobs(tier, seed, excluded=()):
    rng = random.Random(seed)
    dom = Dom(int_max=-1, int_cands=["7", "60", "500"], str_mode="cand", str_cands=["p"], hex_cands=["0x1f"], float_cands=["0.25"])
    trees = ["T03", "T07", "T01"] if tier == "quick" else ["T03", "T04", "T05", "T06", "T07", "T01", "T09"]
    tmo = 150 if tier == "quick" else 500
    skip = list(excluded)
    out = []

    def req_params(j):
        return [("qk%d" % j, "int"), ("qvc%d" % j, "int"), ("qt%d" % j, "int"), ("qvt%d" % j, "int"), ("qi%d" % j, "int"), ("qs%d" % j, "int"), ("qb%d" % j, "bool")]

    for tid in trees:
        names = _names(tid)
        nn = len(names)

        def pre(j, t, vt):
            return "qk%d == 0 and qvc%d == 0 and %d <= qt%d <= %d and %d <= qvt%d <= %d and 0 <= qi%d <= 3 and 0 <= qs%d <= 5" % (j, j, t[0], j, t[1], vt[0], j, vt[1], j, j)

        def smp(r, spec):
            o = []
            for (t, vt) in spec:
                o += [0, 0, r.randint(*t), r.randint(*vt), r.randint(0, 3), r.randint(0, 5), bool(r.randint(0, 1))]
            return o

        def add(tag, V, kinds, spec, budget=3, free_picks=False, combine=False):
            pr = " and ".join(pre(j, *sp) for j, sp in enumerate(spec))
            ps = [p for j in range(len(spec)) for p in req_params(j)]
            mf = (lambda t_, sl_: [x.name for x in sl_ if x.kind == "pick"]) if free_picks else None
            out.extend(state_jobs("C14", "vk.props.c14", "sync", [tid], dom, budget, 1, tmo, rng, {"names": names, "nreq": len(spec), "kinds": kinds, "version": V, "skip": skip, "combine": combine}, tag="v%d-%s" % (V, tag), extra_params=ps, extra_pre=pr, extra_samples=lambda r, spec=spec: smp(r, spec), must_free=mf))

        tall = (0, nn - 1)
        for V in (3, 2, 1):
            if tier == "quick" and tid == "T01" and V != 3:
                continue
            full = (V == 3 and tid != "T01") or tier == "thorough"
            half = nn // 2
            add("set-a", V, [0], [((0, half - 1), (0, 2))], 3)
            add("set-b", V, [0], [((half, nn - 1), (0, 2))], 3)
            if full:
                add("set-anytype", V, [0], [((0, min(5, nn - 1)), (3, 7))], 2)
                add("set2", V, [8], [((0, min(4, nn - 1)), (0, 2))], 2)
            add("reset", V, [1], [(tall, (0, 0))], 6)
            if V == 3:
                add("reset+save", V, [1], [(tall, (0, 0))], 6, combine=True)
                add("set+save", V, [0], [((0, min(3, nn - 1)), (0, 2))], 2, combine=True)
            add("load", V, [6], [((0, 0), (0, 0))], 6)
            if full:
                add("set-reset", V, [0, 1], [((0, 2), (0, 1)), ((0, min(5, nn - 1)), (0, 0))], 2)
                add("set-set", V, [0, 0], [((0, 1), (0, 1)), ((1, 2), (0, 1))], 2)
                add("set-load", V, [0, 6], [((0, 2), (0, 1)), ((0, 0), (0, 0))], 2)
                if any(sl.kind == "pick" for sl in ST.layout(tid)):
                    # set a choice member, then load a file (the user's pick is a symbolic part of the initial state)
                    add("setmember-load", V, [0, 6], [((2, min(4, nn - 1)), (0, 0)), ((0, 0), (0, 0))], 1, free_picks=True)
        if tier == "thorough":
            add("three", 3, [0, 1, 0], [((0, 2), (0, 1)), ((0, 3), (0, 0)), ((0, 2), (0, 1))], 2)
    return out
