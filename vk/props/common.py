"""Helpers shared by property modules."""

REGION_NL = "string_value_with_line_separator"  # known-finding region D7


def nl_assume(str_params):
    """assumption excluding line separators U+000A / U+000D from symbolic string parameters
    (PEP-316 docstrings are read raw, hence chr())"""
    return " and ".join("(chr(10) not in %s and chr(13) not in %s)" % (p, p) for p in str_params)


def rand_state(rng, slots, dom):
    """one in-bounds argument tuple for ST.params_for(slots, dom) (native validation samples)"""
    a = []
    for sl in slots:
        if sl.kind == "bool":
            a.append(rng.randint(0, 2))
        elif sl.kind == "int":
            a.append(rng.choice([-1] + ([rng.randint(0, min(200, dom.int_max))] if dom.int_max >= 0 else []) + ([rng.randint(-1 - len(dom.int_cands), -2)] if dom.int_cands else [])))
        elif sl.kind == "hex":
            a.append(rng.randint(0, len(dom.hex_cands)))
        elif sl.kind == "float":
            a.append(rng.randint(0, len(dom.float_cands)))
        elif sl.kind == "string":
            if dom.str_mode == "sym":
                a.append(rng.randint(0, 1))
                a.append(rng.choice(["", "a", 'q"', "\\"][: 1 + dom.str_len * 2]))
            else:
                a.append(rng.randint(0, len(dom.str_cands)))
        elif sl.kind == "pick":
            a.append(rng.randint(0, len(sl.members)))
    return a


def op_value_bounds(sl, odom, var="ov"):
    if sl.kind == "int":
        return "-%d <= %s <= %d" % (len(odom.int_cands), var, odom.int_max)
    if sl.kind == "bool":
        return "0 <= %s <= 1" % var
    n = {"hex": len(odom.hex_cands), "float": len(odom.float_cands), "string": len(odom.str_cands)}[sl.kind]
    return "0 <= %s < %d" % (var, n)


def state_jobs(prop, module, body, trees, dom, budget, nparts, tmo, rng, extra_ctx=None, tag="", nsamples=2, extra_params=None, extra_pre="", extra_samples=None, must_free=None, fix_first="values"):
    """One job per (tree, partition): all user-state descriptors of the tree inside `dom`.
    extra_params/extra_pre append further symbolic parameters (operations etc.); extra_samples() -> list of values."""
    from ..engine import Job
    from .. import state as ST

    out = []
    for tid in trees:
        slots = ST.layout(tid)
        parts, complete = ST.partitions(slots, dom, budget, nparts, rng, must_free=(must_free(tid, slots) if must_free else ()), fix_first=fix_first)
        for pi, fixed in enumerate(parts):
            sp, spre = ST.params_for(slots, dom, fixed=fixed)
            free = [sl for sl in slots if sl.name not in fixed]
            ctx = {"tree": tid, "dom": dom.to_json(), "nstate": len(sp), "fixed": fixed}
            ctx.update(extra_ctx or {})
            params = sp + list(extra_params or [])
            pre = spre + ((" and " + extra_pre) if extra_pre else "")
            smp = [rand_state(rng, free, dom) + (extra_samples(rng) if extra_samples else []) for _ in range(nsamples)]
            name = "%s-%s%s%s" % (prop, tid, ("-" + tag) if tag else "", "" if complete else "-p%d" % pi)
            out.append(Job(prop, name, module, body, ctx, params, pre, timeout=tmo, samples=smp, tree=tid))
    return out


def decode_state(ctx, args):
    from .. import state as ST

    tid = ctx["tree"]
    dom = ST.Dom.from_json(ctx["dom"])
    slots = ST.layout(tid)
    vals = ST.decode(slots, dom, args[: ctx["nstate"]], fixed=ctx.get("fixed"))
    return tid, dom, slots, vals
