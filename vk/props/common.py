"""Helpers shared by property modules."""

REGION_NL = "string_value_with_line_separator"  # known-finding region D7


def nl_assume(str_params):
    """assumption excluding line separators U+000A / U+000D from symbolic string parameters
    (PEP-316 docstrings are read raw, hence chr())"""
    return " and ".join("(chr(10) not in %s and chr(13) not in %s)" % (p, p) for p in str_params)


def rand_state(rng, slots, dom):
    """one in-bounds argument tuple for ST.params_for(slots, dom) (native validation samples)"""
    a = []
    for sl in slots:
        if sl.kind == "bool":
            a.append(rng.randint(0, 2))
        elif sl.kind == "int":
            a.append(rng.choice([-1, rng.randint(0, min(200, dom.int_max))] + ([rng.randint(-1 - len(dom.int_cands), -2)] if dom.int_cands else [])))
        elif sl.kind == "hex":
            a.append(rng.randint(0, len(dom.hex_cands)))
        elif sl.kind == "float":
            a.append(rng.randint(0, len(dom.float_cands)))
        elif sl.kind == "string":
            if dom.str_mode == "sym":
                a.append(rng.randint(0, 1))
                a.append(rng.choice(["", "a", 'q"', "\\"][: 1 + dom.str_len * 2]))
            else:
                a.append(rng.randint(0, len(dom.str_cands)))
        elif sl.kind == "pick":
            a.append(rng.randint(0, len(sl.members)))
    return a


def op_value_bounds(sl, odom, var="ov"):
    if sl.kind == "int":
        return "-%d <= %s <= %d" % (len(odom.int_cands), var, odom.int_max)
    if sl.kind == "bool":
        return "0 <= %s <= 1" % var
    n = {"hex": len(odom.hex_cands), "float": len(odom.float_cands), "string": len(odom.str_cands)}[sl.kind]
    return "0 <= %s < %d" % (var, n)
