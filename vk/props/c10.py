"""C10 -- a minimal configuration reconstructs the full configuration (4 variants: labels x =n normalisation)."""
import random

from .. import state as ST
from ..state import K, Dom
from ..shims import MemFS, install_fs
from .. import outputs as O
from .common import state_jobs, decode_state

INFO = {
    "bounds": {
        "quick": "trees T01,T02,T05,T06,T07,T09,T12 + edge trees with select/imply/set/choice: every user state inside the domain (ints symbolic 0..120 + malformed candidates; strings from a candidate list that includes form-feed / NEL / LS characters); four writer variants + kconfgen.write_min_config",
        "thorough": "all templates + all edge trees, wider domains",
    },
    "outside": ["trees outside the corpus", "string values outside the candidate list (line separators U+000A/U+000D are the C02 known finding D7)"],
    "stubs": ["memfs behind esp_kconfiglib.core / kconfgen.core file access"],
}
BUDGET = {"quick": 200, "thorough": 800}

STRS = ["", "p", 'q"t', "b\\s", "#c", "a\x0cb", "x\x85y", "u v", "n"]


def _assign_lines(text):
    return [line for line in text.split("\n") if line and not (line.startswith("#") and not line.endswith(" is not set"))]


def mincfg(ctx, *args):
    tid, dom, slots, vals = decode_state(ctx, args)
    fs = MemFS()
    install_fs(fs, K, O.G)
    k = ST.build(tid)
    ST.apply_state(k, slots, vals)
    gens = 1
    if "target" in ctx:
        # second generation: the files of the state before one further (symbolic) operation are already on disk
        gens = 2
    texts = {}
    for gen in range(gens):
        if gen == 1:
            from .c03 import _apply_op

            n = ctx["nstate"]
            _apply_op(k, slots[ctx["target"]], Dom.from_json(ctx["odom"]), args[n], args[n + 1])
        want = ST.values(k)
        for labels in (False, True):
            for norm in (False, True):
                p = "/m/min_%d%d" % (labels, norm)
                k.write_min_config(p, header="", labels=labels, normalize_unset=norm)
                texts[(labels, norm)] = fs.read(p)
        O.G.write_min_config(k, "/m/min_gen")
        texts["gen"] = fs.read("/m/min_gen")
    for key, text in texts.items():
        if text is None:
            return False
        p = "/m/in"
        fs.put(p, text)
        k2 = ST.build(tid)
        k2.load_config(p)
        if ST.values(k2) != want:
            return False
    for norm in (False, True):
        if _assign_lines(texts[(False, norm)]) != _assign_lines(texts[(True, norm)]):
            return False
    return True


def _regen(trees, dom, budget, tmo, rng, ntargets):
    """second generation over the files of the first: the options written last (a file that only gets shorter is the
    corner of the unchanged-file shortcut) and seeded further ones"""
    from .common import op_value_bounds

    odom = Dom(int_max=9, int_cands=["-3"], str_mode="cand", str_cands=["p", ""], hex_cands=["0x1f", "0x2"], float_cands=["0.25", "5"])
    out = []
    for tid in trees:
        slots = ST.layout(tid)
        idx = [i for i, sl in enumerate(slots) if sl.kind != "pick"]
        targets = idx[-2:] + rng.sample(idx[:-2], min(len(idx[:-2]), max(0, ntargets - 2)))
        for t in targets:
            out += state_jobs("C10", "vk.props.c10", "mincfg", [tid], dom, budget, 1, tmo, rng, {"target": t, "odom": odom.to_json()}, tag="regen-" + slots[t].name, extra_params=[("ok", "int"), ("ov", "int")], extra_pre="0 <= ok <= 3 and " + op_value_bounds(slots[t], odom), extra_samples=lambda r: [r.randint(0, 3), 0], must_free=lambda a, b, t=t: [b[t].name])
    return out


def jobs(tier, seed, excluded=()):
    rng = random.Random(seed)
    if tier == "quick":
        dom = Dom(int_max=120, int_cands=["-3", "007"], str_mode="cand", str_cands=STRS, hex_cands=["0x1f", "1f", "0X1F"], float_cands=["5", "1e3", "0.25"])
        trees = ["T01", "T02", "T05", "T06", "T07", "T08", "T09", "T12", "E_select", "E_imply", "E_set_src", "E_setdef_src", "E_choice_default", "E_menu_vis", "E_default_order", "E_default_cond", "E_default_bool"]
        out = state_jobs("C10", "vk.props.c10", "mincfg", trees + ["E_setdef_val", "E_set_val"], dom, 60, 2, 100, rng)
        # small trees explored completely (ints from two candidates)
        cdom = Dom(int_max=-1, int_cands=["7", "10"], str_mode="cand", str_cands=["p"], hex_cands=["0x1f"], float_cands=["0.25"])
        out += state_jobs("C10", "vk.props.c10", "mincfg", ["E_choice_nested", "E_choice_default", "E_choice_member_dep"], cdom, 800, 1, 200, rng, tag="all")
        out += _regen(["T01", "T05", "T07", "E_default_order"], dom, 12, 100, rng, 2)
        return out
    from ..trees import edges

    dom = Dom(int_max=100000, int_cands=["-3", "007", "1_0"], str_mode="cand", str_cands=STRS, hex_cands=["0x1f", "1f", "0X1F", "0x0"], float_cands=["5", "1e3", "0.25", ".5"])
    trees = ["T01", "T02", "T03", "T04", "T05", "T06", "T07", "T08", "T09", "T10", "T11", "T12", "T15"] + edges.ids()
    return state_jobs("C10", "vk.props.c10", "mincfg", trees, dom, 300, 4, 400, rng) + _regen(["T01", "T03", "T05", "T06", "T07", "T09", "E_default_order", "E_choice_default"], dom, 40, 300, rng, 5)
