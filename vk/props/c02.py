"""C02 -- saving and reloading a configuration is a fixpoint (write_config -> fresh load_config -> write_config)."""
import random

from ..engine import Job
from .. import state as ST
from ..state import K, Dom
from ..shims import MemFS, install_fs
from .common import rand_state, REGION_NL, nl_assume

INFO = {
    "bounds": {
        "quick": "trees T01,T03,T05,T07 (+T13 with rename files / deprecated block): all user states within the domain (bools 3-state, ints symbolic 0..120 or malformed candidates, hex/float/string from candidate lists, picks); per string option one job with a fully symbolic value (any code points, len<=2); histories: canonical recipe, and two generations (write, load into used instance, one op, write, fresh load)",
        "thorough": "all templates and edge trees, ints to 10^5, symbolic strings len<=3, merge of hand-written files",
    },
    "outside": ["trees outside the corpus", "string values longer than the bound", "hex/float spellings outside the candidate lists", "histories longer than two generations"],
    "stubs": ["memfs: in-memory file system behind esp_kconfiglib.core's open/os/exists/islink (universal newlines on read modelled)", "report recorder: KconfigReport.add_record of the loading instance replaced by a recorder (records are hashed into sets, which would realise symbolic strings)"],
}
BUDGET = {"quick": 200, "thorough": 800}

CONF = "/m/sdkconfig"


def _recorder(k):
    recs = []

    def add_record(area, **kw):
        sc = kw.get("sym_or_choice")
        recs.append((area.__name__, getattr(sc, "name", None), bool(kw.get("promptless", False))))

    k.report.add_record = add_record
    return recs


def _load_fresh_and_compare(ctx, fs, k, text, wd):
    tid = ctx["tree"]
    k2 = ST.build(tid, renames=ctx.get("renames", False))
    recs = _recorder(k2)
    k2.load_config(CONF)
    for s in k.unique_defined_syms:
        s2 = k2.syms[s.name]
        if s.str_value != s2.str_value:
            return False
        if s.config_string != s2.config_string:
            return False
    for c, c2 in zip(k.unique_choices, k2.unique_choices):
        a, b = c.selection, c2.selection
        if (a.name if a is not None else None) != (b.name if b is not None else None):
            return False
    if k2.missing_syms:
        return False
    for area, name, promptless in recs:
        if area in ("DefaultValuesArea", "MultipleAssignmentArea"):
            return False
    j0 = len(fs.journal)
    k2.write_config(CONF, write_deprecated=wd)
    if len(fs.journal) != j0:
        return False  # second write touched the file: not byte-identical
    if k2._config_contents(None, write_deprecated=wd) != text:
        return False
    return True


def fixpoint(ctx, *args):
    tid = ctx["tree"]
    dom = Dom.from_json(ctx["dom"])
    slots = ST.layout(tid)
    n = ctx["nstate"]
    vals = ST.decode(slots, dom, args[:n], fixed=ctx.get("fixed"))
    wd = ctx.get("write_deprecated", False)
    fs = MemFS()
    install_fs(fs, K)
    k = ST.build(tid, renames=ctx.get("renames", False))
    ST.apply_state(k, slots, vals)
    if ctx.get("mode") == "gen2":
        # second generation: the instance is first saved, reloaded into itself (a *used* instance), edited once
        ok, ov = args[n], args[n + 1]
        k.write_config(CONF, write_deprecated=wd)
        k.load_config(CONF, replace=True)
        from .c03 import _apply_op

        _apply_op(k, slots[ctx["target"]], Dom.from_json(ctx["odom"]), ok, ov)
    elif ctx.get("mode") == "merge":
        # merge of a hand-written defaults-style file (no default markers) built from a second descriptor
        vals2 = ST.decode(slots, dom, args[n : 2 * n], fixed=ctx.get("fixed"))
        lines = []
        for sl in slots:
            v = vals2.get(sl.name)
            if sl.kind == "pick" or v is None:
                continue
            if sl.kind == "bool":
                lines.append("CONFIG_%s=y" % sl.name if v == 2 else "# CONFIG_%s is not set" % sl.name)
            elif sl.kind == "string":
                lines.append('CONFIG_%s="%s"' % (sl.name, K._escape(v)))
            else:
                lines.append("CONFIG_%s=%s" % (sl.name, v))
        fs.put("/m/defaults", "\n".join(lines) + "\n")
        k.load_config("/m/defaults", replace=False)
    k.write_config(CONF, write_deprecated=wd)
    text = fs.read(CONF)
    if text is None:
        return False
    return _load_fresh_and_compare(ctx, fs, k, text, wd)


def jobs(tier, seed, excluded=()):
    rng = random.Random(seed)
    out = []
    if tier == "quick":
        dom = Dom(int_max=120, str_mode="cand", str_cands=["", "fast", 'q"t', "b\\s", "#c", " sp "], int_cands=["-3", "007", "abc"], hex_cands=["0x1f", "0X1F", "1f", "zz", "0xfffff"], float_cands=["5", "1e3", "-0.5", ".5", "nan", "9.6"])
        trees = ["T01", "T03", "T05", "T05s", "T07", "T04", "T10"]
        budget, nparts, tmo = 120, 2, 90
        strlen = 2
    else:
        dom = Dom(int_max=100000, str_mode="cand")
        from ..trees import edges

        trees = ["T01", "T02", "T03", "T04", "T05", "T05s", "T06", "T07", "T08", "T09", "T10", "T11", "T12", "T15"] + edges.ids()
        budget, nparts, tmo = 300, 4, 250
        strlen = 3
    odom = Dom(int_max=dom.int_max, str_mode="cand", str_cands=["", "p", 'q"'], int_cands=["-3", "abc"], hex_cands=["0x1f", "1f", "zz"], float_cands=["5", "0.25", "nan"])

    def mk(name, tid, ctx, params, pre, smp, assume=""):
        ctx = dict(ctx)
        ctx.update(tree=tid, dom=ctx.get("dom", dom.to_json()))
        out.append(Job("C02", name, "vk.props.c02", "fixpoint", ctx, params, pre, timeout=tmo, samples=smp, tree=tid, assume=assume))

    for tid in trees:
        slots = ST.layout(tid)
        parts, complete = ST.partitions(slots, dom, budget, nparts, rng)
        for pi, fixed in enumerate(parts):
            sp, spre = ST.params_for(slots, dom, fixed=fixed)
            free = [sl for sl in slots if sl.name not in fixed]
            mk("C02-%s-p%d" % (tid, pi), tid, {"nstate": len(sp), "fixed": fixed}, sp, spre, [rand_state(rng, free, dom) for _ in range(2)])
        # second generation, one seeded target per tree (all targets in thorough)
        targets = [i for i, sl in enumerate(slots) if sl.kind != "pick"]
        rng.shuffle(targets)
        for t in targets[: (1 if tier == "quick" else 4)]:
            parts, _ = ST.partitions(slots, dom, budget // 5, 1, rng, must_free=[slots[t].name])
            fixed = parts[0]
            sp, spre = ST.params_for(slots, dom, fixed=fixed)
            sl = slots[t]
            if sl.kind == "int":
                vb = "-%d <= ov <= %d" % (len(odom.int_cands), odom.int_max)
            elif sl.kind == "bool":
                vb = "0 <= ov <= 1"
            else:
                vb = "0 <= ov < %d" % {"hex": len(odom.hex_cands), "float": len(odom.float_cands), "string": len(odom.str_cands)}[sl.kind]
            free = [s for s in slots if s.name not in fixed]
            mk("C02-%s-gen2-%s" % (tid, sl.name), tid, {"nstate": len(sp), "fixed": fixed, "mode": "gen2", "target": t, "odom": odom.to_json()}, sp + [("ok", "int"), ("ov", "int")], spre + " and 0 <= ok <= 3 and " + vb, [rand_state(rng, free, dom) + [rng.randint(0, 3), 0] for _ in range(2)])
        # fully symbolic string values: one job per string option, everything else fixed by seed
        sdom = Dom(int_max=dom.int_max, str_mode="sym", str_len=strlen, int_cands=dom.int_cands, hex_cands=dom.hex_cands, float_cands=dom.float_cands)
        refd = ST.referenced_names(tid) or set()
        for sl in slots:
            if sl.kind != "string" or sl.name in refd:
                continue  # strings used in relations stay on candidate lists (z3 string ordering does not finish)
            fixed = {}
            for o in slots:
                if o.name != sl.name:
                    fixed[o.name] = rng.choice(ST.slot_values(o, dom)) if o.kind != "string" else rng.choice([None, "a", 'q"'])
            sp, spre = ST.params_for(slots, sdom, fixed=fixed)
            sname = [p for p, t in sp if t == "str"][0]
            assume = nl_assume([sname]) if REGION_NL in excluded else ""
            mk("C02-%s-str-%s" % (tid, sl.name), tid, {"nstate": len(sp), "fixed": fixed, "dom": sdom.to_json()}, sp, spre, [[1, "a"], [1, '\\"'], [0, ""]], assume=assume)
    # small choice trees explored completely (ints from two candidates)
    cdom = Dom(int_max=-1, int_cands=["7", "1"], str_mode="cand", str_cands=["p"], hex_cands=["0x1f"], float_cands=["0.25"])
    for tid in ["E_choice_late", "E_choice_nested", "E_choice_default"]:
        slots = ST.layout(tid)
        parts, complete = ST.partitions(slots, cdom, 1200, 1, rng)
        # split on the first slot to spread over cores
        first = slots[0]
        for v in ST.slot_values(first, cdom):
            fixed = dict(parts[0])
            fixed[first.name] = v
            sp, spre = ST.params_for(slots, cdom, fixed=fixed)
            free = [sl for sl in slots if sl.name not in fixed]
            mk("C02-%s-all-%s" % (tid, v), tid, {"nstate": len(sp), "fixed": fixed, "dom": cdom.to_json()}, sp, spre, [rand_state(rng, free, cdom) for _ in range(2)])
    # deprecated block
    for tid in ["T13", "T13b"]:
        slots = ST.layout(tid)
        parts, complete = ST.partitions(slots, dom, budget, 1, rng)
        fixed = parts[0]
        sp, spre = ST.params_for(slots, dom, fixed=fixed)
        free = [s for s in slots if s.name not in fixed]
        mk("C02-%s-deprecated" % tid, tid, {"nstate": len(sp), "fixed": fixed, "renames": True, "write_deprecated": True}, sp, spre, [rand_state(rng, free, dom) for _ in range(2)])
    if tier == "thorough":
        for tid in ["T01", "T05", "T06", "T07", "T03"]:
            slots = ST.layout(tid)
            parts, _ = ST.partitions(slots, dom, 25, 2, rng)
            for pi, fixed in enumerate(parts):
                sp, spre = ST.params_for(slots, dom, fixed=fixed)
                sp2, spre2 = ST.params_for(slots, dom, prefix="m", fixed=fixed)
                free = [s for s in slots if s.name not in fixed]
                mk("C02-%s-merge-p%d" % (tid, pi), tid, {"nstate": len(sp), "fixed": fixed, "mode": "merge"}, sp + sp2, spre + " and " + spre2, [rand_state(rng, free, dom) + rand_state(rng, free, dom) for _ in range(2)])
    return out
