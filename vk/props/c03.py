"""C03 -- incremental re-evaluation equals evaluation from scratch (inductive step + short histories)."""
import random

from ..engine import Job
from .. import state as ST
from ..state import K, Dom

INFO = {
    "bounds": {
        "quick": "29+ edge trees (one per dependency-edge kind; every option is the operation target once) and T06,T07 (seeded targets); per tree: user-state descriptors (sampled partition of ~40 states per job) (bool 3 states, int symbolic 0..10^5 + malformed candidates, strings from candidates, choice picks) x one operation {unset,set,reset,reset-menu} on a fixed target per job with symbolic value; read order forward and reverse",
        "thorough": "all templates T01..T12,T15 + random trees; same, plus 2-step histories",
    },
    "outside": ["trees outside the corpus", "read subsets other than: everything (forward / reverse order), exactly one item, nothing", "histories longer than the inductive step's single operation are covered only through the all-caches-filled argument (DESIGN C03)", "hex/float/string values outside the candidate lists"],
    "stubs": [],
}
BUDGET = {"quick": 300, "thorough": 800}


def _dom(tier):
    """state domain (pre-state sigma)"""
    if tier == "quick":
        return Dom(int_max=120, str_mode="cand", str_cands=["p"], int_cands=[], hex_cands=["0x1f"], float_cands=["0.25"])
    return Dom(int_max=100000, str_mode="cand", str_cands=["", "p", "vv"], int_cands=["-3", "abc"], hex_cands=["0x1f", "1f", "zz", "0x100"], float_cands=["5", "0.25", "nan"])


def _opdom(tier):
    """domain of the operation's value"""
    if tier == "quick":
        return Dom(int_max=120, str_mode="cand", str_cands=["", "p", "vv"], int_cands=["-3", "abc"], hex_cands=["0x1f", "1f", "zz", "0x100"], float_cands=["5", "0.25", "nan", "x"])
    return Dom(int_max=100000, str_mode="cand", str_cands=["", "p", 'q"', "vv"], int_cands=["-3", "007", "abc", ""], hex_cands=["0x1f", "1f", "zz", "0x100", "0x5"], float_cands=["5", "0.25", "1e1", "nan", "x"])


def _op_value(sl, dom, ov):
    """decodes the symbolic operation value for the target slot"""
    if sl.kind == "bool":
        return 2 if ov % 2 else 0
    if sl.kind == "int":
        if ov >= 0:
            return str(ov)
        return dom.int_cands[(-1 - ov) % len(dom.int_cands)]
    if sl.kind == "hex":
        return dom.hex_cands[ov % len(dom.hex_cands)]
    if sl.kind == "float":
        return dom.float_cands[ov % len(dom.float_cands)]
    return dom.str_cands[ov % len(dom.str_cands)]


def _apply_op(k, sl, dom, ok, ov):
    sym = k.syms[sl.name]
    if ok == 0:
        sym.unset_value()
    elif ok == 1:
        sym.set_value(_op_value(sl, dom, ov))
    elif ok == 2:
        K._restore_default(sym.nodes[0])
    else:
        # reset of the enclosing menu (what menuconfig's "reset menu" and kconfserver's reset of a menu id do)
        node = sym.nodes[0].parent
        K._recursively_perform_action(node, K._restore_default)


def step(ctx, *args):
    tid = ctx["tree"]
    dom = Dom.from_json(ctx["dom"])
    odom = Dom.from_json(ctx["odom"])
    slots = ST.layout(tid)
    nstate = ctx["nstate"]
    vals = ST.decode(slots, dom, args[:nstate], fixed=ctx.get("fixed"))
    k = ST.build(tid)
    ST.apply_state(k, slots, vals)
    rest = args[nstate:]
    if ctx.get("preread") == "one":
        # partial read: exactly one item (or none) is read before the operation, every other cache stays empty
        ri = rest[-1]
        rest = rest[:-1]
        items = [("val", s_) for s_ in k.unique_defined_syms] + [("vis", s_) for s_ in k.unique_defined_syms] + [("sel", c_) for c_ in k.unique_choices] + [("asg", s_) for s_ in k.unique_defined_syms if s_.choice is not None]
        for j, (what, obj) in enumerate(items):
            if ri == j:
                if what == "val":
                    obj.str_value
                elif what == "vis":
                    obj.visibility
                elif what == "asg":
                    obj.assignable
                else:
                    obj.selection
    else:
        ST.snapshot(k, reverse=ctx.get("reverse", False))  # fill every cache
    for j, t in enumerate(ctx["targets"]):
        ok, ov = rest[2 * j], rest[2 * j + 1]
        _apply_op(k, slots[t], odom, ok, ov)
        if j + 1 < len(ctx["targets"]):
            ST.snapshot(k)  # caches refilled between operations
    a = ST.snapshot(k, reverse=ctx.get("reverse", False))
    k._invalidate_all()
    b = ST.snapshot(k)
    if a != b:
        return False
    uv, picks = ST.user_state(k)
    k2 = ST.build(tid)
    ST.apply_user_state(k2, uv, picks)
    c = ST.snapshot(k2)
    return a == c


def loadused(ctx, *args):
    """load of a tool-written file (replace) into a *used* instance == load into a fresh instance"""
    from ..shims import MemFS, install_fs

    tid = ctx["tree"]
    dom = Dom.from_json(ctx["dom"])
    slots = ST.layout(tid)
    n = ctx["nstate"]
    v1 = ST.decode(slots, dom, args[:n], fixed=ctx.get("fixed"))
    v2 = ST.decode(slots, dom, args[n : 2 * n], fixed=ctx.get("fixed2"))
    fs = MemFS()
    install_fs(fs, K)
    k2 = ST.build(tid)
    ST.apply_state(k2, slots, v2)
    k2.write_config("/m/f")
    k1 = ST.build(tid)
    if ctx.get("stale"):
        # the instance is "used" by having loaded a file whose default-marked entries carry the first state's values
        # (stored defaults that differ from the Kconfig defaults, as an older tree version or another tool leaves them)
        lines = []
        for sl in slots:
            v = v1.get(sl.name)
            if sl.kind == "pick" or v is None:
                continue
            lines.append("# default:")
            if sl.kind == "bool":
                lines.append("CONFIG_%s=y" % sl.name if v == 2 else "# CONFIG_%s is not set" % sl.name)
            elif sl.kind == "string":
                lines.append('CONFIG_%s="%s"' % (sl.name, K._escape(v)))
            else:
                lines.append("CONFIG_%s=%s" % (sl.name, v))
        fs.put("/m/old", "\n".join(lines) + "\n")
        k1.load_config("/m/old")
    else:
        ST.apply_state(k1, slots, v1)
    ST.snapshot(k1)
    k1.load_config("/m/f", replace=True)
    kf = ST.build(tid)
    kf.load_config("/m/f")
    a = ST.snapshot(k1)
    if a != ST.snapshot(kf):
        return False
    k1._invalidate_all()
    return a == ST.snapshot(k1)


def _samples(rng, params, pre_bounds, n=3):
    out = []
    for _ in range(n):
        out.append([rng.randint(lo, hi) for lo, hi in pre_bounds])
    return out


def jobs(tier, seed, excluded=()):
    from ..trees import edges

    dom = _dom(tier)
    odom = _opdom(tier)
    rng = random.Random(seed)
    out = []
    etrees = edges.ids()
    if tier == "quick":
        big = ["T06", "T07"]
        budget, nparts, tmo = 30, 1, 60
    else:
        big = ["T01", "T02", "T03", "T04", "T05", "T06", "T07", "T08", "T09", "T10", "T11", "T12", "T15"] + ["R%d" % (1000 * seed + j) for j in range(8)]
        budget, nparts, tmo = 100, 3, 200
    for tid in etrees + big:
        slots = ST.layout(tid)
        targets = [i for i, sl in enumerate(slots) if sl.kind != "pick"]
        hist = [(t,) for t in targets]
        if tier == "thorough" or tid in big:
            pairs = [(a, b) for a in targets for b in targets if a != b]
            rng.shuffle(pairs)
            hist += pairs[: (1 if tier == "quick" else 6)]
        if tier == "quick" and tid in big:
            rng.shuffle(hist)
            hist = hist[:5]
        for hi, h in enumerate(hist):
            parts, complete = ST.partitions(slots, dom, budget // (1 if len(h) == 1 else 5), nparts, rng, must_free=[slots[t].name for t in h])
            for pi, fixed in enumerate(parts):
                revs = (False, True) if (tier == "thorough" and len(h) == 1) else ((hi % 2 == 1),)
                for rev in revs:
                    sp, spre = ST.params_for(slots, dom, fixed=fixed)
                    params = list(sp)
                    pre = [spre]
                    for j, t in enumerate(h):
                        params += [("ok%d" % j, "int"), ("ov%d" % j, "int")]
                        sl = slots[t]
                        if sl.kind == "int":
                            vb = "-%d <= ov%d <= %d" % (len(odom.int_cands), j, odom.int_max)
                        elif sl.kind == "bool":
                            vb = "0 <= ov%d <= 1" % j
                        else:
                            n = {"hex": len(odom.hex_cands), "float": len(odom.float_cands), "string": len(odom.str_cands)}[sl.kind]
                            vb = "0 <= ov%d < %d" % (j, n)
                        pre.append("0 <= ok%d <= 3 and %s" % (j, vb))
                    name = "C03-%s-%s%s%s" % (tid, "+".join(slots[t].name for t in h), "-rev" if rev else "", ("-p%d" % pi) if not complete else "")
                    smp = []
                    for _ in range(2):
                        smp.append(_rand_state(rng, [sl for sl in slots if sl.name not in fixed], dom) + [x for t in h for x in (rng.randint(0, 3), rng.randint(0, 1))])
                    out.append(
                        Job(
                            "C03",
                            name,
                            "vk.props.c03",
                            "step",
                            {"tree": tid, "dom": dom.to_json(), "odom": odom.to_json(), "nstate": len(sp), "targets": list(h), "reverse": rev, "fixed": fixed},
                            params,
                            " and ".join(pre),
                            timeout=tmo,
                            samples=smp,
                            tree=tid,
                        )
                    )
    # partial reads: one (symbolic) item read before the operation instead of all of them
    ptrees = ["E_choice_default", "E_choice_dep", "E_choice_member_dep", "E_select", "E_imply", "E_default_val"] if tier == "quick" else (etrees + ["T07", "T08", "T06", "T03"])
    for tid in ptrees:
        slots = ST.layout(tid)
        k = ST.build(tid)
        nitems = 2 * len(k.unique_defined_syms) + len(k.unique_choices) + len([s_ for s_ in k.unique_defined_syms if s_.choice is not None])
        targets = [i for i, sl in enumerate(slots) if sl.kind != "pick"]
        if tier == "quick" and len(targets) > 3:
            rng.shuffle(targets)
            targets = targets[:3]
        for t in targets:
            parts, complete = ST.partitions(slots, dom, 6 if tier == "quick" else 40, 1, rng, must_free=[slots[t].name])
            fixed = parts[0]
            sp, spre = ST.params_for(slots, dom, fixed=fixed)
            sl = slots[t]
            if sl.kind == "int":
                vb = "-%d <= ov0 <= %d" % (len(odom.int_cands), odom.int_max)
            elif sl.kind == "bool":
                vb = "0 <= ov0 <= 1"
            else:
                vb = "0 <= ov0 < %d" % {"hex": len(odom.hex_cands), "float": len(odom.float_cands), "string": len(odom.str_cands)}[sl.kind]
            free = [x for x in slots if x.name not in fixed]
            out.append(Job("C03", "C03-%s-%s-oneread" % (tid, sl.name), "vk.props.c03", "step", {"tree": tid, "dom": dom.to_json(), "odom": odom.to_json(), "nstate": len(sp), "targets": [t], "reverse": False, "fixed": fixed, "preread": "one"}, list(sp) + [("ok0", "int"), ("ov0", "int"), ("ri", "int")], spre + " and 0 <= ok0 <= 3 and " + vb + " and -1 <= ri < %d" % nitems, timeout=tmo * 2, samples=[_rand_state(rng, free, dom) + [rng.randint(0, 3), 0, rng.randint(-1, nitems - 1)] for _ in range(3)], tree=tid))
    # loads of tool-written files into used instances
    ltrees = ["T07", "T06", "E_choice_default", "E_setdef_src", "E_choice_member_dep", "E_default_cond", "E_dep"] if tier == "quick" else ["T01", "T03", "T05", "T06", "T07", "T08", "T12", "T15", "E_choice_default", "E_choice_dep", "E_choice_member_dep", "E_setdef_src", "E_set_src", "E_select"]
    for tid in ltrees:
        slots = ST.layout(tid)
        for pi in range(2 if tier == "quick" else 6):
            p1, _ = ST.partitions(slots, dom, 12 if tier == "quick" else 30, 1, rng)
            p2, _ = ST.partitions(slots, dom, 12 if tier == "quick" else 30, 1, rng)
            sp1, pre1 = ST.params_for(slots, dom, prefix="u", fixed=p1[0])
            sp2, pre2 = ST.params_for(slots, dom, prefix="w", fixed=p2[0])
            if len(sp1) != len(sp2):
                # keep one nstate for both halves: pad by using the same free set
                p2 = p1
                sp2, pre2 = ST.params_for(slots, dom, prefix="w", fixed=p2[0])
            f1 = [sl for sl in slots if sl.name not in p1[0]]
            f2 = [sl for sl in slots if sl.name not in p2[0]]
            out.append(Job("C03", "C03-%s-loadused%s-p%d" % (tid, "-stale" if pi % 2 == 1 else "", pi), "vk.props.c03", "loadused", {"tree": tid, "dom": dom.to_json(), "nstate": len(sp1), "fixed": p1[0], "fixed2": p2[0], "stale": pi % 2 == 1}, sp1 + sp2, pre1 + " and " + pre2, timeout=tmo * 2, samples=[_rand_state(rng, f1, dom) + _rand_state(rng, f2, dom) for _ in range(3)], tree=tid))
    return out


def _rand_state(rng, slots, dom):
    a = []
    for sl in slots:
        if sl.kind == "bool":
            a.append(rng.randint(0, 2))
        elif sl.kind == "int":
            a.append(rng.choice([-1, rng.randint(0, min(200, dom.int_max))] + ([rng.randint(-1 - len(dom.int_cands), -2)] if dom.int_cands else [])))
        elif sl.kind == "hex":
            a.append(rng.randint(0, len(dom.hex_cands)))
        elif sl.kind == "float":
            a.append(rng.randint(0, len(dom.float_cands)))
        elif sl.kind == "string":
            if dom.str_mode == "sym":
                a.append(rng.randint(0, 1))
                a.append(rng.choice(["", "a", 'q"', "\\"]))
            else:
                a.append(rng.randint(0, len(dom.str_cands)))
        elif sl.kind == "pick":
            a.append(rng.randint(0, len(sl.members)))
    return a
