"""C05 -- a choice always has exactly one selected member (and that one only is defined in header / CMake / JSON)."""
import random

from ..engine import Job
from .. import state as ST
from ..state import K, Dom
from ..shims import MemFS, install_fs
from .. import outputs as O
from .common import state_jobs, decode_state, rand_state
from ..trees import dsl

INFO = {
    "bounds": {
        "quick": "trees with choices T07, T08, E_choice_*, fixtures Kconfig.choices / nested_choices: every user state (members n/y/unset, picks, condition options) via the canonical recipe; then one symbolic operation with live caches; loads of files assigning up to 3 members (any order, y/n, default markers)",
        "thorough": "same + T15, all choice fixtures, two operations, loads of 4 lines",
    },
    "outside": ["trees outside the corpus", "histories longer than 2 operations"],
    "stubs": ["memfs for the load / output parts"],
}
BUDGET = {"quick": 380, "thorough": 800}


def _choice_specs(tid):
    """[(member names in order, [(default member, cond text)])] per choice in unique_choices order, from the DSL;
    None for fixture trees (then the defaults come from the parsed instance)."""
    t = ST.get_tree(tid)
    if t is None:
        return None
    by_name = {}
    order = []
    for ch, ctx in dsl.all_choices(t):
        key = ch.name if ch.name else id(ch)
        if key not in by_name:
            by_name[key] = {"members": [], "defaults": []}
            order.append(key)
        mem = []
        dsl.walk(ch.children, lambda n, c: mem.append(n.name) if isinstance(n, dsl.Cfg) and not any(isinstance(x, dsl.Choice) for x in c) else None)
        for m in mem:
            if m not in by_name[key]["members"]:
                by_name[key]["members"].append(m)
        by_name[key]["defaults"] += list(ch.defaults)
    return [by_name[k] for k in order]


def _check(k, tid, outputs=False, fs=None, identity=True, picks=None):
    specs = _choice_specs(tid)
    sel_names = []
    for ci, c in enumerate(k.unique_choices):
        members = list(c.syms)
        vis = c.visibility
        ys = [m for m in members if m.str_value == "y"]
        for m in members:
            if m.str_value not in ("y", "n"):
                return False
        visible_members = [m for m in members if m.visibility]
        if vis == 0:
            if ys:
                return False
            sel_names.append(None)
            continue
        if not visible_members:
            if ys:
                return False
            sel_names.append(None)
            continue
        if len(ys) != 1:
            return False
        if not identity:
            if c.selection is not ys[0]:
                return False
            sel_names.append(ys[0].name)
            continue
        # who must it be
        pick = c._user_selection
        if picks is not None and c in picks:
            # the pick the history prescribes (a replacing load forgets earlier picks); it must also be what the
            # instance recorded
            if (picks[c] is None) != (pick is None) or (pick is not None and pick.name != picks[c]):
                return False
        if pick is not None and pick.visibility:
            want = pick
        else:
            want = None
            if specs is not None:
                for dm, cond in specs[ci]["defaults"]:
                    if (cond is None or k.eval_string(cond)) and k.syms[dm].visibility:
                        want = k.syms[dm]
                        break
            else:
                for sym, cond in c.defaults:
                    if K.expr_value(cond) and sym.visibility:
                        want = sym
                        break
            if want is None:
                want = visible_members[0]
        if ys[0] is not want:
            return False
        if c.selection is not want:
            return False
        sel_names.append(want.name)
    if outputs:
        outs = O.produce(k, fs)
        hdr = O.read_header(outs["header"])
        cm, _ = O.read_cmake(outs["cmake"])
        js = outs["json"]
        for ci, c in enumerate(k.unique_choices):
            for m in c.syms:
                sel = m.name == sel_names[ci]
                if (m.name in hdr) != sel:
                    return False
                if (cm.get(m.name, "") == "y") != sel:
                    return False
                if bool(js.get(m.name, False)) != sel:
                    return False
    return True


def state(ctx, *args):
    tid, dom, slots, vals = decode_state(ctx, args)
    k = ST.build(tid)
    ST.apply_state(k, slots, vals)
    fs = MemFS()
    if not _check(k, tid, outputs=True, fs=fs):
        return False
    n = ctx["nstate"]
    rest = args[n:]
    from .c03 import _apply_op

    odom = Dom.from_json(ctx["odom"]) if "odom" in ctx else dom
    for j, t in enumerate(ctx.get("targets", [])):
        _apply_op(k, slots[t], odom, rest[2 * j], rest[2 * j + 1])
        if not _check(k, tid):
            return False
    return True


def load(ctx, *args):
    """loads a file assigning several members (any order, y / n, optional default marker) into state sigma"""
    tid, dom, slots, vals = decode_state(ctx, args)
    k = ST.build(tid, env={"KCONFIG_DEFAULTS_POLICY": ctx["policy"]})
    ST.apply_state(k, slots, vals)
    ST.snapshot(k)
    n = ctx["nstate"]
    rest = args[n:]
    members = ctx["members"]
    lines = []
    for j in range(ctx["nlines"]):
        mi, form = rest[2 * j], rest[2 * j + 1]
        name = members[mi % len(members)]
        # form: 1 =y, 2 not set, 3 default-marked =y, 4 default-marked not set
        if form >= 3:
            lines.append("# default:")
        lines.append("CONFIG_%s=y" % name if form in (1, 3) else "# CONFIG_%s is not set" % name)
    fs = MemFS()
    install_fs(fs, K)
    fs.put("/m/in", "\n".join(lines) + "\n")
    rep = bool(rest[2 * ctx["nlines"]])
    # expected user picks after the load: the last member assigned y without default marker; a replacing load
    # forgets every earlier pick, a merge keeps the picks of choices the file does not select in
    last_y = None
    marked = False
    for j in range(ctx["nlines"]):
        if rest[2 * j + 1] == 1:
            last_y = members[rest[2 * j] % len(members)]
        if rest[2 * j + 1] >= 3:
            marked = True
    picks = {}
    for c in k.unique_choices:
        mine = [m.name for m in c.syms] == list(members)
        if mine and last_y is not None:
            # (a default-marked entry for a choice that has a pick turns the current selection into the pick, by
            #  design -- Choice.resolve_defaults; then the remembered member is not prescribed)
            if not marked:
                picks[c] = last_y
        elif rep:
            picks[c] = None
        # (merges without a y line: the earlier pick, or the current selection when a default-marked entry is merged)
    k.load_config("/m/in", replace=rep)
    # with policy `sdkconfig` a default-marked entry may legitimately pin another default selection (C08): there only
    # "exactly one member is y and it is the reported selection" is demanded
    return _check(k, tid, identity=(ctx["policy"] == "kconfig"), picks=picks if ctx["policy"] == "kconfig" else None)


def jobs(tier, seed, excluded=()):
    rng = random.Random(seed)
    dom = Dom(int_max=9, int_cands=[], str_mode="cand", str_cands=["p"], hex_cands=["0x1f"], float_cands=["0.25"])
    if tier == "quick":
        trees = ["T07", "T08", "E_choice_default", "E_choice_dep", "E_choice_member_dep", "E_choice_prompt_if", "F:kconfiglib/kconfigs/Kconfig.choices", "F:kconfiglib/kconfigs/Kconfig.nested_choices"]
        budget, nparts, tmo, nops, nlines = 150, 2, 180, 1, 2
    else:
        trees = ["T07", "T08", "T15", "E_choice_default", "E_choice_dep", "E_choice_member_dep", "E_choice_prompt_if"] + ["F:kconfiglib/kconfigs/Kconfig." + x for x in ("choices", "nested_choices", "choice_loading", "choice_non_first_default", "unnamed_choices", "disabled_symbols_choices", "invisible_choice_all_n")] + ["F:menuconfig/kconfigs/Kconfig.choice_default", "F:menuconfig/kconfigs/Kconfig.choice_explicit_default"]
        budget, nparts, tmo, nops, nlines = 250, 4, 200, 2, 3
    out = []
    for tid in trees:
        try:
            slots = ST.layout(tid)
        except Exception:
            continue
        if not any(sl.kind == "pick" for sl in slots):
            continue
        # (a) all states + outputs
        out += state_jobs("C05", "vk.props.c05", "state", [tid], dom, budget, nparts, tmo, rng)
        # (b) one/two operations with live caches, per target
        targets = [i for i, sl in enumerate(slots) if sl.kind != "pick"]
        rng.shuffle(targets)
        # the options that conditions refer to (not members themselves) come first: they move member visibility
        allmembers = {m for sl in slots if sl.kind == "pick" for m in sl.members}
        targets.sort(key=lambda i: slots[i].name in allmembers)
        for t in targets[: (3 if tier == "quick" else len(targets))]:
            hist = [t] if nops == 1 else [t, rng.choice(targets)]
            ep = []
            epre = []
            for j, tt in enumerate(hist):
                ep += [("ok%d" % j, "int"), ("ov%d" % j, "int")]
                epre.append("0 <= ok%d <= 3 and 0 <= ov%d <= 1" % (j, j))
            js = state_jobs("C05", "vk.props.c05", "state", [tid], dom, budget // (5 ** len(hist)) + 8, 1, tmo, rng, {"targets": hist}, tag="op-" + "+".join(slots[x].name for x in hist), extra_params=ep, extra_pre=" and ".join(epre), extra_samples=lambda r, h=hist: [x for _ in h for x in (r.randint(0, 3), r.randint(0, 1))], must_free=lambda tid_, sl_, h=hist: [sl_[x].name for x in h] + [s_.name for s_ in sl_ if s_.kind == "pick"])
            out += js
        # (c) loads assigning several members
        for sl in slots:
            if sl.kind != "pick":
                continue
            ep = []
            epre = []
            for j in range(nlines):
                ep += [("m%d" % j, "int"), ("f%d" % j, "int")]
                epre.append("0 <= m%d < %d and 1 <= f%d <= 4" % (j, len(sl.members), j))
            ep.append(("rep", "int"))
            epre.append("0 <= rep <= 1")
            for policy in ("kconfig", "sdkconfig"):
              out += state_jobs("C05", "vk.props.c05", "load", [tid], dom, 3 if tier == "quick" else 9, 1, tmo, rng, {"members": sl.members, "nlines": nlines, "policy": policy}, tag="load-%s-%s" % (sl.name.strip("<>"), policy), extra_params=ep, extra_pre=" and ".join(epre), extra_samples=lambda r, m=len(sl.members): [x for _ in range(nlines) for x in (r.randint(0, m - 1), r.randint(1, 4))] + [r.randint(0, 1)])
    return out
