"""C04 -- both parsers accept the same language and build the same configuration."""
import glob
import os
import random

from ..engine import Job
from .. import state as ST
from ..state import K, Dom
from .. import outputs as O
from .. import structure as SX
from .common import state_jobs, decode_state

INFO = {
    "bounds": {
        "quick": "programs: templates T01-T15, all edge trees (one per dependency-edge kind, conditional forms included), repository fixtures test/kconfiglib/kconfigs/ok/*.in (source, macros, comments, helps, nested ifs/choices/menus) and Kconfig.* fixtures; per program: acceptance + menu-tree structure compared concretely; then for every user state inside the domain both instances are compared on values, visibility, assignable, sdkconfig text, header text, JSON values (solver-decided)",
        "thorough": "same with larger state domains and more partitions, plus the back-edge mutants (both must reject)",
    },
    "outside": [
        "programs outside the corpus: the quantifier over all sources of the grammar is not reached (symbolic source text is beyond the engine)",
        "sources using constructs the documentation does not define or marks as parser-specific: unquoted ${ENV} expansion (EnvironmentVariable.in), escaped quotes inside prompts, missing mainmenu, select/imply/set on non-bool sources (fixtures under warnings/ and errors/)",
        "the structural comparison is an enumeration over the corpus, not a solver result; expressions are compared semantically (by the solver, over all configurations) rather than textually",
    ],
    "stubs": [],
}
BUDGET = {"quick": 240, "thorough": 800}

SKIP = {"EnvironmentVariable.in"}


def fixtures():
    fx = sorted(glob.glob(ST.FIXROOT + "/kconfiglib/kconfigs/ok/*.in")) + sorted(glob.glob(ST.FIXROOT + "/kconfiglib/kconfigs/Kconfig.*"))
    fx += [ST.FIXROOT + "/kconfserver/Kconfig", ST.FIXROOT + "/kconfiglib/deprecated/Kconfig"] + sorted(glob.glob(ST.FIXROOT + "/menuconfig/kconfigs/Kconfig*"))
    fx += [ST.FIXROOT + "/gen_kconfig_doc/Kconfig", ST.FIXROOT + "/kconfgen/Kconfig"]
    return ["F:" + f[len(ST.FIXROOT) + 1 :] for f in fx if os.path.isfile(f) and os.path.basename(f) not in SKIP] + ["V:srcnest/Kconfig"]


def _both(tid):
    r = []
    for v in (1, 2):
        try:
            r.append(ST.build(tid, parser_version=v))
        except (K.KconfigError, SystemExit) as e:
            r.append(None)
        except Exception as e:
            if type(e).__name__ in ("KconfigParseError", "ParseException", "ParseSyntaxException"):
                r.append(None)
            else:
                raise
    return r


def structure(ctx, d):
    """concrete per-program comparison: acceptance, entries, order, nesting, types, prompts, help"""
    for tid in ctx["programs"]:
        k1, k2 = _both(tid)
        if (k1 is None) != (k2 is None):
            return False
        if k1 is None:
            continue
        a, b = SX.fingerprint(k1), SX.fingerprint(k2)
        if len(a["nodes"]) != len(b["nodes"]) or a["mainmenu"] != b["mainmenu"]:
            return False
        for x, y in zip(a["nodes"], b["nodes"]):
            for key in ("kind", "name", "type", "depth", "help", "is_menuconfig"):
                if x[key] != y[key]:
                    return False
            if (x["prompt"] or (None,))[0] != (y["prompt"] or (None,))[0]:
                return False
        if [s[:2] for s in a["syms"]] != [s[:2] for s in b["syms"]]:
            return False
        if sorted((c[0] or "", c[1]) for c in a["choices"]) != sorted((c[0] or "", c[1]) for c in b["choices"]):
            return False
    return True


def equiv(ctx, *args):
    tid, dom, slots, vals = decode_state(ctx, args)
    k1 = ST.build(tid, parser_version=1)
    k2 = ST.build(tid, parser_version=2)
    ST.apply_state(k1, slots, vals)
    ST.apply_state(k2, slots, vals)
    if ST.snapshot(k1) != ST.snapshot(k2):
        return False
    if k1._config_contents("") != k2._config_contents(""):
        return False
    if k1._autoconf_contents("") != k2._autoconf_contents(""):
        return False
    if O.G.get_json_values(k1) != O.G.get_json_values(k2):
        return False
    # visibility of menus / comments (conditions on non-symbol entries)
    for n1, n2 in zip(k1.node_iter(), k2.node_iter()):
        if n1.prompt and n2.prompt:
            if K.expr_value(n1.prompt[1]) != K.expr_value(n2.prompt[1]):
                return False
        if K.expr_value(n1.dep) != K.expr_value(n2.dep):
            return False
    return True


def jobs(tier, seed, excluded=()):
    from ..trees import edges, templates, mutate

    rng = random.Random(seed)
    progs = list(templates.ALL) + edges.ids() + ["R%d" % (1000 * seed + j) for j in range(6 if tier == "quick" else 40)]
    fx = fixtures()
    out = []
    allp = progs + fx
    if tier == "thorough":
        allp = allp + mutate.all_back_mutants()
    n = 12
    for i in range(0, len(allp), n):
        chunk = allp[i : i + n]
        out.append(Job("C04", "C04-structure-%02d" % (i // n), "vk.props.c04", "structure", {"programs": chunk}, [("d", "int")], "d == 0", timeout=120, samples=[[0]], tree=",".join(chunk)[:200]))
    usable = []
    for tid in progs + fx:
        try:
            k1, k2 = _both(tid)
            if k1 is not None and k2 is not None and ST.layout(tid):
                usable.append(tid)
        except Exception:
            usable.append(tid)  # let the job report the exception
    if tier == "quick":
        dom = Dom(int_max=120, int_cands=["-3"], str_mode="cand", str_cands=["", "p", "fast"], hex_cands=["0x1f", "1f"], float_cands=["5", "0.25"])
        out += state_jobs("C04", "vk.props.c04", "equiv", usable, dom, 40, 1, 90, rng)
    else:
        dom = Dom(int_max=100000, int_cands=["-3", "007"], str_mode="cand", str_cands=["", "p", "fast", 'q"'], hex_cands=["0x1f", "1f", "0X1F"], float_cands=["5", "0.25", "1e3"])
        out += state_jobs("C04", "vk.props.c04", "equiv", usable, dom, 400, 3, 400, rng)
    return out
