"""C20 -- generated documentation omits only unreachable options, shows truthful conditions, has no dangling links."""
import random
import re

from ..engine import Job
from .. import state as ST
from ..state import K, Dom
from ..shims import MemFS, install_fs, install_log, notrace
from .common import state_jobs, decode_state

import esp_idf_kconfig.gen_kconfig_doc as GD

install_log(GD)

INFO = {
    "bounds": {
        "quick": "(tree, target) in T14 x {esp32, esp32c6} and test/gen_kconfig_doc/Kconfig x {chipa, chipb}: visibility and every shown condition (can-be-set-when, range, default, select/set, forced-by) are computed by the real gen_kconfig_doc on the default configuration; then for every assignment of user values to the user-settable options (bools 3-state, strings / ints from candidates) a hidden prompt is n and every shown condition has the truth value of the Kconfig condition it was simplified from; cross-references of the generated text resolve",
        "thorough": "more partitions, int values symbolic",
    },
    "outside": ["trees / targets outside the corpus", "environment-variable driven options"],
    "stubs": ["memfs for write_docs"],
}
BUDGET = {"quick": 200, "thorough": 800}


def _collect(k, vis):
    """(hidden prompted nodes, [(what, original cond, shown cond or None, direct_dep or None)]) on the default config"""
    hidden = []
    rows = []
    sel_by, set_by = GD._cache_reverse_dependency_mappings(k)
    for node in k.node_iter():
        if not node.prompt or node.item == K.COMMENT:
            continue  # comments are not options and are never documented
        if type(node.parent.item) is K.Choice and type(node.item) is K.Symbol:
            continue  # choice members are documented with their choice
        if not vis.visible(node):
            hidden.append(node)
            continue
        sym = node.item
        if type(sym) is not K.Symbol:
            continue
        if type(node.parent.item) is K.Choice:
            continue
        rows.append(("can be set when " + sym.name, node.prompt[1], GD._prepare_cond(node.prompt[1], vis, k), None))
        for lo, hi, c in sym.ranges:
            rows.append(("range " + sym.name, c, GD._prepare_cond(c, vis, k, direct_deps=sym.direct_dep), sym.direct_dep))
        for v, c in sym.defaults:
            rows.append(("default " + sym.name, c, GD._prepare_cond(c, vis, k, direct_deps=sym.direct_dep), sym.direct_dep))
        for t, c in sym.selects:
            rows.append(("select by " + sym.name, c, GD._prepare_cond(c, vis, k, direct_deps=sym.direct_dep), sym.direct_dep))
        for t, v, c in sym.sets:
            rows.append(("set by " + sym.name, c, GD._prepare_cond(c, vis, k, direct_deps=sym.direct_dep), sym.direct_dep))
        for src, c in sel_by.get(sym, []):
            if GD._source_sym_may_force(src, vis):
                rows.append(("forced by " + src.name, c, GD._prepare_cond(c, vis, k, direct_deps=src.direct_dep), src.direct_dep))
        for src, v, c in set_by.get(sym, []):
            if GD._source_sym_may_force(src, vis):
                rows.append(("set-forced by " + src.name, c, GD._prepare_cond(c, vis, k, direct_deps=src.direct_dep), src.direct_dep))
    return hidden, rows


_REF = re.compile(r":ref:`CONFIG_(\w+)(?:<CONFIG_\w+>)?`")


def _doc_cond_to_kconfig(text):
    """turns a condition as rendered by gen_kconfig_doc back into Kconfig expression syntax"""
    # one pass: option names may themselves start with CONFIG_ (e.g. CONFIG_FOR_CHIPA); strip the prefix only once
    t = re.sub(r":ref:`CONFIG_(\w+)(?:<CONFIG_\w+>)?`|\bCONFIG_(\w+)", lambda m: m.group(1) or m.group(2), text)
    t = re.sub(r"(\w+) is enabled", r"\1", t)
    t = re.sub(r"(\w+) is disabled", r"!\1", t)
    return t.strip()


def _text_rows(text):
    """rows of the generated text: [(kind, option, other option or None, condition text or None)]"""
    rows = []
    cur = None
    section = None
    lines = text.split("\n")
    for i, line in enumerate(lines):
        m = re.match(r"^\.\. _CONFIG_(\w+):$", line)
        if m and not line.startswith(" "):
            cur = m.group(1)
            section = None
            continue
        if re.match(r"^\.\. _", line):
            cur = None
            continue
        if cur is None:
            continue
        st = line.strip()
        if st.endswith(":") and line.startswith("    ") and not line.startswith("     "):
            section = st[:-1]
            continue
        if section == "Symbol can be set when" and st:
            rows.append(("set_when", cur, None, st))
            section = None
        elif section in ("This symbol affects the value of following symbols", "Following symbols affect the value of this symbol") and st.startswith("- "):
            body = st[2:]
            cond = None
            if " if " in body:
                body, cond = body.split(" if ", 1)
            m = re.match(r"(forcefully enables|forcefully enabled by|sets|set by) (\S+)", body)
            if m:
                other = _REF.sub(r"\1", m.group(2))
                other = re.sub(r"^CONFIG_", "", other)
                rows.append(({"forcefully enables": "selects", "forcefully enabled by": "selected_by", "sets": "sets", "set by": "set_by"}[m.group(1)], cur, other, cond))
    return rows


def docs(ctx, *args):
    tid, dom, slots, vals = decode_state(ctx, args)
    target = ctx["target"]
    k = ST.build(tid, env={"IDF_TARGET": target})
    trows = []
    with notrace():
        vis = GD.ConfigTargetVisibility(k, target)
        hidden, rows = _collect(k, vis)
        vis_nodes = {id(nd): vis.visible(nd) for nd in k.node_iter() if nd.prompt}
        if ctx.get("links", True):
            import os

            fs = MemFS()
            install_fs(fs, GD)
            old = os.environ.get("IDF_TARGET")
            os.environ["IDF_TARGET"] = target
            try:
                GD.write_docs(k, vis, "/m/docs.rst")
            finally:
                if old is None:
                    os.environ.pop("IDF_TARGET", None)
                else:
                    os.environ["IDF_TARGET"] = old
            text = fs.read("/m/docs.rst")
            trows = []
            for kind, name, other, cond in _text_rows(text):
                # parse the rendered condition once, outside tracing (the text is concrete); evaluate it per path
                e = None
                if cond:
                    k.filename = None
                    k._tokens = k._tokenize("if " + _doc_cond_to_kconfig(cond))
                    k._line = cond
                    k._tokens_i = 1
                    e = k._expect_expr_and_eol()
                trows.append((kind, name, other, e))
            anchors = set(re.findall(r"^\s*\.\. _([^:]+):", text, re.M))
            for m in re.finditer(r":ref:`([^`]+)`", text):
                tgt = m.group(1)
                if "<" in tgt:
                    tgt = tgt[tgt.index("<") + 1 : -1]
                if tgt not in anchors:
                    return False
    # only options with a prompt are user-settable
    settable = [sl for sl in slots if sl.kind == "pick" or any(n.prompt for n in k.syms[sl.name].nodes)]
    ST.apply_state(k, settable, vals)
    for node in hidden:
        v = K.expr_value(node.prompt[1])
        if node.item == K.MENU:
            v = min(v, K.expr_value(node.visibility), K.expr_value(node.dep))
        if v != 0:
            return False  # an undocumented option is visible in this configuration
    for what, orig, shown, dep in rows:
        o = K.expr_value(orig)
        if shown is None:
            if o != 0:
                return False  # a dropped row applies in this configuration
            continue
        if dep is not None and K.expr_value(dep) == 0:
            continue
        if (K.expr_value(shown) != 0) != (o != 0):
            return False
    # the conditions as they actually appear in the generated text (independent of how the writer computed them)
    for kind, name, other, cond in trows:
        sym = k.syms.get(name)
        if sym is None or not sym.nodes:
            continue
        shown_v = K.expr_value(cond) if cond is not None else 2
        if kind == "set_when":
            nodes = [nd for nd in sym.nodes if nd.prompt and vis_nodes.get(id(nd))]
            if len(nodes) != 1:
                continue  # options documented from several definitions: each block shows its own condition
            if (shown_v != 0) != (K.expr_value(nodes[0].prompt[1]) != 0):
                return False
            continue
        src, tgt = (sym, k.syms.get(other)) if kind in ("selects", "sets") else (k.syms.get(other), sym)
        if src is None or tgt is None:
            continue
        if K.expr_value(src.direct_dep) == 0:
            continue  # the source's own dependencies are shown with the source
        if kind in ("selects", "selected_by"):
            conds = [c for t_, c in src.selects if t_ is tgt]
        else:
            conds = [c for t_, v_, c in src.sets if t_ is tgt]
        if len(conds) != 1:
            continue
        if (shown_v != 0) != (K.expr_value(conds[0]) != 0):
            return False
    return True


def jobs(tier, seed, excluded=()):
    rng = random.Random(seed)
    dom = Dom(int_max=-1 if tier == "quick" else 20, int_cands=["0", "3", "4", "7"], str_mode="cand", str_cands=["slow", "fast", ""], hex_cands=["0x1f"], float_cands=["0.25"])
    cfgs = [("T14", "esp32"), ("T14", "esp32c6"), ("F:gen_kconfig_doc/Kconfig", "chipa"), ("F:gen_kconfig_doc/Kconfig", "chipb")]
    out = []
    for tid, target in cfgs:
        import os

        os.environ["IDF_TARGET"] = target
        ST._LAYOUTS.clear()
        try:
            out += state_jobs("C20", "vk.props.c20", "docs", [tid], dom, 300 if tier == "quick" else 1500, 8 if tier == "quick" else 16, 150 if tier == "quick" else 600, rng, {"target": target}, tag=target)
        finally:
            os.environ.pop("IDF_TARGET", None)
    return out
