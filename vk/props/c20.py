"""C20 -- generated documentation omits only unreachable options, shows truthful conditions, has no dangling links."""
import random
import re

from ..engine import Job
from .. import state as ST
from ..state import K, Dom
from ..shims import MemFS, install_fs, install_log, notrace
from .common import state_jobs, decode_state

import esp_idf_kconfig.gen_kconfig_doc as GD

install_log(GD)

INFO = {
    "bounds": {
        "quick": "(tree, target) in T14 x {esp32, esp32c6} and test/gen_kconfig_doc/Kconfig x {chipa, chipb}: visibility and every shown condition (can-be-set-when, range, default, select/set, forced-by) are computed by the real gen_kconfig_doc on the default configuration; then for every assignment of user values to the user-settable options (bools 3-state, strings / ints from candidates) a hidden prompt is n and every shown condition has the truth value of the Kconfig condition it was simplified from; cross-references of the generated text resolve",
        "thorough": "more partitions, int values symbolic",
    },
    "outside": ["trees / targets outside the corpus", "environment-variable driven options"],
    "stubs": ["memfs for write_docs"],
}
BUDGET = {"quick": 200, "thorough": 1200}


def _collect(k, vis):
    """(hidden prompted nodes, [(what, original cond, shown cond or None, direct_dep or None)]) on the default config"""
    hidden = []
    rows = []
    sel_by, set_by = GD._cache_reverse_dependency_mappings(k)
    for node in k.node_iter():
        if not node.prompt or node.item == K.COMMENT:
            continue  # comments are not options and are never documented
        if type(node.parent.item) is K.Choice and type(node.item) is K.Symbol:
            continue  # choice members are documented with their choice
        if not vis.visible(node):
            hidden.append(node)
            continue
        sym = node.item
        if type(sym) is not K.Symbol:
            continue
        if type(node.parent.item) is K.Choice:
            continue
        rows.append(("can be set when " + sym.name, node.prompt[1], GD._prepare_cond(node.prompt[1], vis, k), None))
        for lo, hi, c in sym.ranges:
            rows.append(("range " + sym.name, c, GD._prepare_cond(c, vis, k, direct_deps=sym.direct_dep), sym.direct_dep))
        for v, c in sym.defaults:
            rows.append(("default " + sym.name, c, GD._prepare_cond(c, vis, k, direct_deps=sym.direct_dep), sym.direct_dep))
        for t, c in sym.selects:
            rows.append(("select by " + sym.name, c, GD._prepare_cond(c, vis, k, direct_deps=sym.direct_dep), sym.direct_dep))
        for t, v, c in sym.sets:
            rows.append(("set by " + sym.name, c, GD._prepare_cond(c, vis, k, direct_deps=sym.direct_dep), sym.direct_dep))
        for src, c in sel_by.get(sym, []):
            if GD._source_sym_may_force(src, vis):
                rows.append(("forced by " + src.name, c, GD._prepare_cond(c, vis, k, direct_deps=src.direct_dep), src.direct_dep))
        for src, v, c in set_by.get(sym, []):
            if GD._source_sym_may_force(src, vis):
                rows.append(("set-forced by " + src.name, c, GD._prepare_cond(c, vis, k, direct_deps=src.direct_dep), src.direct_dep))
    return hidden, rows


def docs(ctx, *args):
    tid, dom, slots, vals = decode_state(ctx, args)
    target = ctx["target"]
    k = ST.build(tid, env={"IDF_TARGET": target})
    with notrace():
        vis = GD.ConfigTargetVisibility(k, target)
        hidden, rows = _collect(k, vis)
        if ctx.get("links", True):
            import os

            fs = MemFS()
            install_fs(fs, GD)
            old = os.environ.get("IDF_TARGET")
            os.environ["IDF_TARGET"] = target
            try:
                GD.write_docs(k, vis, "/m/docs.rst")
            finally:
                if old is None:
                    os.environ.pop("IDF_TARGET", None)
                else:
                    os.environ["IDF_TARGET"] = old
            text = fs.read("/m/docs.rst")
            anchors = set(re.findall(r"^\s*\.\. _([^:]+):", text, re.M))
            for m in re.finditer(r":ref:`([^`]+)`", text):
                tgt = m.group(1)
                if "<" in tgt:
                    tgt = tgt[tgt.index("<") + 1 : -1]
                if tgt not in anchors:
                    return False
    # only options with a prompt are user-settable
    settable = [sl for sl in slots if sl.kind == "pick" or any(n.prompt for n in k.syms[sl.name].nodes)]
    ST.apply_state(k, settable, vals)
    for node in hidden:
        v = K.expr_value(node.prompt[1])
        if node.item == K.MENU:
            v = min(v, K.expr_value(node.visibility), K.expr_value(node.dep))
        if v != 0:
            return False  # an undocumented option is visible in this configuration
    for what, orig, shown, dep in rows:
        o = K.expr_value(orig)
        if shown is None:
            if o != 0:
                return False  # a dropped row applies in this configuration
            continue
        if dep is not None and K.expr_value(dep) == 0:
            continue
        if (K.expr_value(shown) != 0) != (o != 0):
            return False
    return True


def jobs(tier, seed, excluded=()):
    rng = random.Random(seed)
    dom = Dom(int_max=-1 if tier == "quick" else 20, int_cands=["0", "3", "4", "7"], str_mode="cand", str_cands=["slow", "fast", ""], hex_cands=["0x1f"], float_cands=["0.25"])
    cfgs = [("T14", "esp32"), ("T14", "esp32c6"), ("F:gen_kconfig_doc/Kconfig", "chipa"), ("F:gen_kconfig_doc/Kconfig", "chipb")]
    out = []
    for tid, target in cfgs:
        import os

        os.environ["IDF_TARGET"] = target
        ST._LAYOUTS.clear()
        try:
            out += state_jobs("C20", "vk.props.c20", "docs", [tid], dom, 300 if tier == "quick" else 1500, 8 if tier == "quick" else 16, 150 if tier == "quick" else 600, rng, {"target": target}, tag=target)
        finally:
            os.environ.pop("IDF_TARGET", None)
    return out
