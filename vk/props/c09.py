"""C09 -- cyclic definitions are rejected; accepted trees always evaluate (no exception in any configuration)."""
import random

from ..engine import Job
from .. import state as ST
from ..state import K, Dom
from ..shims import MemFS, install_fs
from .. import outputs as O
from .common import state_jobs, decode_state

INFO = {
    "bounds": {
        "quick": "totality: templates T01-T12,T15, all edge trees and repository fixtures, every user state inside the domain with the full malformed-number candidate lists (sampled partitions for large trees); cycles: every applicable back-edge kind (22 kinds) on every edge tree with a forward edge X -> Y (465 mutants), enumerated (concrete programs, no symbolic input)",
        "thorough": "same with more partitions, plus edge trees in the totality part",
    },
    "outside": ["trees outside the corpus", "cycles longer than forward edge + back edge", "the back-edge family is an enumeration of concrete programs, not a solver result"],
    "stubs": ["memfs for the writers"],
}
BUDGET = {"quick": 220, "thorough": 800}


def total(ctx, *args):
    tid, dom, slots, vals = decode_state(ctx, args)
    fs = MemFS()
    install_fs(fs, K, O.G)
    k = ST.build(tid)
    ST.apply_state(k, slots, vals)
    ST.snapshot(k)
    for s in k.unique_defined_syms:
        s.bool_value
        s.has_active_default_value()
    for c in k.unique_choices:
        c.selection, c.visibility, c.assignable
    for n in k.node_iter():
        if n.prompt:
            K.expr_value(n.prompt[1])
        K.expr_value(n.dep)
    O.produce(k, fs, wd=False)
    for labels in (False, True):
        k.write_min_config("/m/min", header="", labels=labels, normalize_unset=True)
    O.G.write_json_menus(k, "/m/menus.json")
    return True


def cycles(ctx, d):
    from ..trees import mutate

    for kind in ctx["kinds"]:
        tid = "%s:back:%s" % (ctx["base"], kind)
        try:
            ST.build(tid)
        except K.KconfigError as e:
            msg = str(e)
            if "Dependency loop" not in msg:
                return False
            if "X (defined at" not in msg and "Y (defined at" not in msg and "symbol X" not in msg and "symbol Y" not in msg:
                return False
            continue
        return False  # accepted (or would have raised something else, which propagates)
    return True


def jobs(tier, seed, excluded=()):
    from ..trees import mutate, edges

    rng = random.Random(seed)
    dom = Dom(int_max=200, str_mode="cand", str_cands=["", "p", 'q"', "slow", "fast"])
    fixtures = ["F:kconfiglib/kconfigs/Kconfig." + x for x in ("choices", "nested_choices", "conditional_prompt", "default_validity", "multiple_value_set", "loading_defaults", "string_escape", "unnamed_choices")] + ["F:kconfserver/Kconfig", "F:kconfiglib/deprecated/Kconfig", "F:menuconfig/kconfigs/Kconfig.risky"]
    import os

    fixtures = [f for f in fixtures if os.path.exists(os.path.join(ST.FIXROOT, f[2:]))]
    temps = ["T01", "T02", "T03", "T04", "T05", "T06", "T07", "T08", "T09", "T10", "T11", "T12", "T15"]
    if tier == "quick":
        out = state_jobs("C09", "vk.props.c09", "total", temps + fixtures, dom, 100, 1, 100, rng)
        out += state_jobs("C09", "vk.props.c09", "total", edges.ids(), dom, 60, 1, 100, rng)
    else:
        out = state_jobs("C09", "vk.props.c09", "total", temps + fixtures + edges.ids() + ["R%d" % (1000 * seed + j) for j in range(16)], dom, 500, 3, 400, rng)
    by_base = {}
    for m in mutate.all_back_mutants():
        b, _, kind = m.split(":")
        by_base.setdefault(b, []).append(kind)
    for b, kinds in by_base.items():
        out.append(Job("C09", "C09-cycles-%s" % b, "vk.props.c09", "cycles", {"base": b, "kinds": kinds}, [("d", "int")], "d == 0", timeout=60, samples=[[0]], tree=b + ":back:*"))
    return out
