"""C07 -- all generated output formats describe the same configuration (options and deprecated aliases)."""
import random

from ..engine import Job
from .. import state as ST
from ..state import K, Dom
from ..shims import MemFS
from .. import outputs as O
from .common import state_jobs, decode_state

REGION_HDR_INV = "header_inverted_alias_of_n_replacement"

INFO = {
    "bounds": {
        "quick": "trees T13, T13b (rename files: several aliases per option, inversions, duplicates, lowercase, undefined target, two files), T01, T05, T07, T04 without renames: every user state with values from candidate lists (texts are concrete per path)",
        "thorough": "all templates + edge trees, larger candidate lists",
    },
    "outside": ["symbolic numeric values (covered value-wise by C06)", "rename shapes outside T13/T13b", "json_menus / docs formats"],
    "stubs": ["memfs behind esp_kconfiglib.core and kconfgen.core file access", "five small readers of the output texts (vk/outputs.py) are trusted"],
}
BUDGET = {"quick": 200, "thorough": 800}


def rename_map(tid):
    """final mapping old -> (new, inverted) with 'last mapping wins', from the tree's own rename lines"""
    t = ST.get_tree(tid)
    m = {}
    for lines in t.renames if t else []:
        for line in lines:
            line = line.strip()
            if not line or line.startswith("#"):
                continue
            old, new = line.split()
            inv = new.startswith("!")
            m[old[len("CONFIG_") :]] = (new.lstrip("!")[len("CONFIG_") :], inv)
    return m


def agree(ctx, *args):
    tid, dom, slots, vals = decode_state(ctx, args)
    fs = MemFS()
    k = ST.build(tid, renames=True)
    ST.apply_state(k, slots, vals)
    outs = O.produce(k, fs, wd=ctx.get("wd", True))
    if "target" in ctx:
        # second generation: the outputs are regenerated over the files of the state before one further operation
        from .c03 import _apply_op

        n = ctx["nstate"]
        _apply_op(k, slots[ctx["target"]], Dom.from_json(ctx["odom"]), args[n], args[n + 1])
        outs = O.produce(k, fs, wd=ctx.get("wd", True))
    main, dep, dflt = O.read_sdkconfig(outs["sdkconfig"])
    hdr = O.read_header(outs["header"])
    cm, lst = O.read_cmake(outs["cmake"])
    js = outs["json"]
    auto, _, _ = O.read_sdkconfig(outs["autoconf"])
    kinds = {sl.name: sl.kind for sl in slots if sl.kind != "pick"}
    val = {}
    for x, kind in kinds.items():
        ins = x in main
        if (x in cm) != ins or (x in js) != ins:
            return False
        if not ins:
            if x in hdr or x in auto:
                return False
            continue
        raw = main[x]
        if kind != "bool" and raw == "":
            # nothing provides a value: every format must show "empty"
            if cm[x] != "" or js[x] is not None:
                return False
            continue
        v = O.canon(kind, "sdkconfig", raw)
        val[x] = v
        if O.canon(kind, "cmake", cm[x]) != v or O.canon(kind, "json", js[x]) != v:
            return False
        is_n = kind == "bool" and v is False
        if (x in hdr) != (not is_n) or (x in auto) != (not is_n):
            return False
        if not is_n:
            if O.canon(kind, "header", hdr[x]) != v or O.canon(kind, "sdkconfig", auto[x]) != v:
                return False
            if kind == "hex" and not (hdr[x].startswith(("0x", "0X")) and cm[x].startswith("0x")):
                return False
    # aliases
    if not ctx.get("wd", True):
        return not dep and set(lst) == set("CONFIG_" + n for n in cm)
    rm = rename_map(tid)
    exp_alias_order = []
    for old, (new, inv) in rm.items():
        if new not in kinds:
            if old in dep or old in cm or old in hdr:
                return False
            continue
        kind = kinds[new]
        if new not in main:
            if old in dep or old in cm or old in hdr:
                return False
            continue
        if new not in val:
            continue
        ev = val[new]
        if kind == "bool" and inv:
            ev = not ev
        if old not in dep or O.canon(kind, "sdkconfig", dep[old]) != ev:
            return False
        if old not in cm or O.canon(kind, "cmake", cm[old]) != ev:
            return False
        # header: '#define OLD [!]CONFIG_NEW' -- effective C value
        if old in hdr:
            if hdr[old] != ("!" if inv else "") + "CONFIG_" + new:
                return False
            eff = (new in hdr) != inv if kind == "bool" else (new in hdr)
        else:
            eff = False
        want = ev if kind == "bool" else True
        if eff != want:
            if kind == "bool" and inv and val[new] is False and REGION_HDR_INV in ctx.get("skip", []):
                pass
            else:
                return False
    # CONFIGS_LIST names exactly the variables set (an option defined in several places is written once per
    # definition, with the same value: a repeated name is not a disagreement)
    if set(lst) != set("CONFIG_" + n for n in cm):
        return False
    return True


def _regen(trees, dom, budget, tmo, rng, ntargets, skip):
    """second generation over the files of the first: the options written last (files that only get shorter) and
    seeded further ones; with and without the deprecated blocks (which otherwise end every file)"""
    from .common import op_value_bounds

    odom = Dom(int_max=9, int_cands=["-3"], str_mode="cand", str_cands=["p", ""], hex_cands=["0x1f", "0x2"], float_cands=["0.25", "5"])
    out = []
    for tid, wd in trees:
        slots = ST.layout(tid)
        idx = [i for i, sl in enumerate(slots) if sl.kind != "pick"]
        targets = idx[-2:] + rng.sample(idx[:-2], min(len(idx[:-2]), max(0, ntargets - 2)))
        for t in targets:
            out += state_jobs("C07", "vk.props.c07", "agree", [tid], dom, budget, 1, tmo, rng, {"skip": skip, "wd": wd, "target": t, "odom": odom.to_json()}, tag="regen-" + slots[t].name, extra_params=[("ok", "int"), ("ov", "int")], extra_pre="0 <= ok <= 3 and " + op_value_bounds(slots[t], odom), extra_samples=lambda r: [r.randint(0, 3), 0], must_free=lambda a, b, t=t: [b[t].name])
    return out


def jobs(tier, seed, excluded=()):
    rng = random.Random(seed)
    skip = [r for r in excluded]
    if tier == "quick":
        dom = Dom(int_max=9, int_cands=["007", "-3"], str_mode="cand", str_cands=["", 'q"t', "b\\s", "n", "y"], hex_cands=["0x1f", "0X1F", "1f"], float_cands=["5", "1e3", "-0.5"])
        out = state_jobs("C07", "vk.props.c07", "agree", ["T13", "T13b"], dom, 250, 3, 120, rng, {"skip": skip})
        out += state_jobs("C07", "vk.props.c07", "agree", ["T01", "T05", "T07", "T04"], dom, 120, 1, 90, rng, {"skip": skip})
        out += _regen([("T01", True), ("T07", True), ("T13b", True), ("T13b", False)], dom, 12, 90, rng, 2, skip)
    else:
        from ..trees import edges

        dom = Dom(int_max=120, int_cands=["007", "-3", "1_0"], str_mode="cand", hex_cands=["0x1f", "0X1F", "1f", "001f", "0x0"], float_cands=["5", "1e3", "-0.5", ".5"])
        out = state_jobs("C07", "vk.props.c07", "agree", ["T13", "T13b"], dom, 700, 6, 400, rng, {"skip": skip})
        out += state_jobs("C07", "vk.props.c07", "agree", ["T01", "T02", "T03", "T04", "T05", "T06", "T07", "T08", "T09", "T10", "T11", "T12", "T15"] + edges.ids(), dom, 500, 2, 300, rng, {"skip": skip})
    if tier != "quick":
        out += _regen([("T01", True), ("T05", True), ("T07", True), ("T04", True), ("T13b", True), ("T13b", False), ("T13", True)], dom, 40, 300, rng, 5, skip)
    return out
