"""C15 -- the config server answers every request and survives bad ones."""
import random

from ..engine import Job
from .. import state as ST
from ..state import K, Dom
from ..shims import MemFS
from .. import server as SV
from .common import state_jobs, decode_state

REGION = ""

INFO = {
    "bounds": {
        "quick": "trees F:kconfserver/Kconfig, T03, T07: server started on the sdkconfig of a (sampled) user state; one request with symbolic shape: keys set / reset / load / save (valid and wrong-typed), version in {0,1,2,3,4,'3',null,2.5,missing}, target among visible / invisible / unknown options, menu ids and bogus ids, value of symbolic JSON type (bool, int, float, str len<=2, null, list, dict, huge int) or a non-JSON line; also two-request sequences (bad then good) and two-entry sets compared with the same request without the second entry",
        "thorough": "all request kinds x all version codes, three-request sequences",
    },
    "outside": ["the C-level JSON codec (requests are delivered as Python objects)", "request sequences longer than the bound (the per-request check starts from an arbitrary configuration, which is the inductive step)"],
    "stubs": ["json / sys shims for kconfserver.core", "memfs behind kconfserver / kconfgen / core file access"],
}
BUDGET = {"quick": 330, "thorough": 800}

VERS = [0, 1, 2, 3, 4, "3", None, 2.5]


def _names(tid):
    k = ST.build(tid)
    names = [s.name for s in k.unique_defined_syms][:6]
    menus = [n.id for n in k.node_iter() if not isinstance(n.item, (K.Symbol, K.Choice))][:2]
    return names + ["NOPE", "[/NOPE]"] + menus + ["bogus-[/9]", "all"]


IVALS = [-3, 0, 7, 300]
SVALS = ["", "y", "1f", "zz", "0x", "[/x]", "\ud800"]  # (the last one: a lone surrogate, which JSON can carry but UTF-8 cannot)


def pick(lst, idx):
    """concrete element for a symbolic selector (forks per element; indexing would yield a symbolic value)"""
    for j, x in enumerate(lst):
        if idx == j:
            return x
    return lst[-1]


def mkval(vt, i, s, b):
    # (selectors are decoded lazily: only the one the chosen JSON type needs is inspected)
    if vt == 0:
        return b
    if vt == 2:
        return pick(SVALS, s)
    if vt == 3:
        return None
    i = pick(IVALS, i)
    if vt == 1:
        return i
    if vt == 4:
        return [i]
    if vt == 5:
        return {"a": i}
    if vt == 6:
        return float(i) + 0.5
    return i * 10**20


def mkreq(names, kind, vc, t, vt, i, s, b):
    if kind == 9:
        return SV.Bad()
    name = pick(names, t)
    v = mkval(vt, i, s, b) if kind in (0, 2, 3, 4, 5, 8) else None
    req = {}
    if vc < len(VERS):
        req["version"] = pick(VERS, vc)
    if kind == 0:
        req["set"] = {name: v}
    elif kind == 1:
        req["reset"] = [name]
    elif kind == 2:
        req["reset"] = v
    elif kind == 3:
        req["set"] = v
    elif kind == 4:
        req["load"] = v if vt != 3 else None
    elif kind == 5:
        req["save"] = v if vt != 3 else None
    elif kind == 6:
        req["load"] = pick(("/m/other", "/m/[/missing]", "/m/proj", "/m/ot\0her"), i)  # existing file, missing file, a directory, a name no OS call accepts
    elif kind == 7:
        req["save"] = pick(("/m/saved", "/m/ro/saved", "/m/nodir/x", "/m/sa\0ved"), i)
    elif kind == 8:
        req["set"] = {names[0]: b, name: v}
    return req


def _state(k):
    return (SV.G.get_json_values(k), SV.S.get_ranges(k), SV.S.get_visible(k))


def _fs(k0):
    fs = MemFS()
    fs.dirs.update({"/m/proj", "/m/ro"})
    fs.unwritable.add("/m/ro/saved")
    fs.put("/m/sdkconfig", k0)
    fs.put("/m/other", k0)
    return fs


def one(ctx, *args):
    tid, dom, slots, vals = decode_state(ctx, args)
    n = ctx["nstate"]
    k = ST.build(tid)
    ST.apply_state(k, slots, vals)
    text = k._config_contents("")
    names = ctx["names"]
    reqs = []
    rest = args[n:]
    for j in range(ctx["nreq"]):
        kind, vc, t, vt, i, s, b = rest[7 * j : 7 * j + 7]
        reqs.append(mkreq(names, ctx["kinds"][j] if ctx["kinds"][j] is not None else kind, vc, t, vt, i, s, b))
    replies, ok, kc = SV.run(tid, _fs(text), "/m/sdkconfig", reqs, version=ctx.get("version", 3))
    if not ok or len(replies) != 1 + len(reqs):
        return False
    for r in replies:
        if not isinstance(r, dict) or "version" not in r:
            return False
    # unreadable / unwritable files: reported in `error`, configuration and files as if the key had not been sent
    last = reqs[-1]
    if isinstance(last, dict) and ("load" in last or "save" in last) and isinstance(last.get("version"), int) and not isinstance(last.get("version"), bool) and 1 <= last["version"] <= 3:
        fs_used = SV.S.open.__self__ if hasattr(SV.S.open, "__self__") else None
        bad_load = "load" in last and last["load"] is not None and not (isinstance(last["load"], str) and fs_used is not None and fs_used.isfile(last["load"]))
        sv = last.get("save")
        bad_save = "save" in last and sv is not None and not (isinstance(sv, str) and fs_used is not None and sv != "" and "\0" not in sv and fs_used.ismem(sv) and fs_used.isdir(fs_used.ab(sv).rsplit("/", 1)[0]) and fs_used.ab(sv) not in fs_used.unwritable and not fs_used.isdir(sv))
        if bad_load or bad_save:
            if not replies[-1].get("error"):
                return False
            if fs_used is not None and fs_used.read("/m/sdkconfig") != text:
                return False  # a failed save / load must not rewrite the session's file
            rest_req = {k_: v_ for k_, v_ in last.items() if not (k_ == "load" and bad_load) and not (k_ == "save" and bad_save)}
            _, ok0, k0 = SV.run(tid, _fs(text), "/m/sdkconfig", reqs[:-1] + [rest_req], version=ctx.get("version", 3))
            if not ok0 or _state(kc) != _state(k0):
                return False
    # offending part: a set entry that did not change its own target must not have changed anything else
    if isinstance(last, dict) and isinstance(last.get("set"), dict) and len(last["set"]) == 2 and "reset" not in last:
        (a, av), (bname, bv) = list(last["set"].items())
        reqs0 = reqs[:-1] + [{k_: v_ for k_, v_ in last.items() if k_ != "set"}]
        reqs0[-1]["set"] = {a: av}
        _, ok0, k0 = SV.run(tid, _fs(text), "/m/sdkconfig", reqs0, version=ctx.get("version", 3))
        if not ok0:
            return False
        s1, s0 = _state(kc), _state(k0)
        if bname not in s1[0] or s1[0].get(bname) == s0[0].get(bname):
            if bname in k0.syms and k0.syms[bname]._user_value != kc.syms[bname]._user_value:
                return True  # the entry was applied (same visible value): not an offending part
            if s1 != s0:
                return False
    return True


def jobs(tier, seed, excluded=()):
    rng = random.Random(seed)
    dom = Dom(int_max=-1, int_cands=["7", "60"], str_mode="cand", str_cands=["p"], hex_cands=["0x1f"], float_cands=["0.25"])
    trees = ["T03", "T07", "T05", "F:kconfserver/Kconfig"] if tier == "quick" else ["T03", "T04", "T05", "T07", "T09", "F:kconfserver/Kconfig"]
    out = []
    tmo = 150 if tier == "quick" else 500

    def req_params(j):
        return [("qk%d" % j, "int"), ("qvc%d" % j, "int"), ("qt%d" % j, "int"), ("qvt%d" % j, "int"), ("qi%d" % j, "int"), ("qs%d" % j, "int"), ("qb%d" % j, "bool")]

    for tid in trees:
        names = _names(tid)
        nn = len(names)
        big = tid.startswith("F:")

        def pre(j, vc, t, vt, iv=(0, 3), sv=(0, len(SVALS) - 1)):
            return "qk%d == 0 and %d <= qvc%d <= %d and %d <= qt%d <= %d and %d <= qvt%d <= %d and %d <= qi%d <= %d and %d <= qs%d <= %d" % (j, vc[0], j, vc[1], t[0], j, t[1], vt[0], j, vt[1], iv[0], j, iv[1], sv[0], j, sv[1])

        def smp(r, spec):
            o = []
            for sp in spec:
                vc, t, vt = sp[:3]
                iv = sp[3] if len(sp) > 3 else (0, 3)
                sv = sp[4] if len(sp) > 4 else (0, len(SVALS) - 1)
                o += [0, r.randint(*vc), r.randint(*t), r.randint(*vt), r.randint(*iv), r.randint(*sv), bool(r.randint(0, 1))]
            return o

        def add(tag, kinds, spec, budget=2):
            pr = " and ".join(pre(j, *sp) for j, sp in enumerate(spec))
            ps = [p for j in range(len(spec)) for p in req_params(j)]
            out.extend(state_jobs("C15", "vk.props.c15", "one", [tid], dom, budget, 1, tmo, rng, {"names": names, "nreq": len(spec), "kinds": kinds}, tag=tag, extra_params=ps, extra_pre=pr, extra_samples=lambda r, spec=spec: smp(r, spec)))

        allv, oneval = (0, 7), (0, 0)
        tall = (0, nn - 1)
        vok, vbad = (1, 3), (4, 8)
        if big:
            # the repository's own (large) fixture: a reduced slice
            add("set-vok", [0], [((3, 3), (0, 3), allv)], 1)
            add("set-vbad", [0], [(vbad, (0, 0), (1, 2))], 1)
            add("wrongtypes", [None], [((3, 3), (0, 0), (3, 6))], 1)
            continue
        # set {name: value}: every target x every JSON type, valid versions; split over targets
        tsel = list(range(nn))
        if tier == "quick":
            rng.shuffle(tsel)
            tsel = sorted(tsel[: (nn + 1) // 2])
        for t in tsel:
            add("set-vok-t%d" % t, [0], [(vok, (t, t), allv)])
        add("set-v0", [0], [((0, 0), tall, (0, 2))])
        add("set-vbad", [0], [(vbad, (0, 1), (0, 3))])
        add("reset-name", [1], [((0, 8), tall, oneval)])
        add("reset-wrongtype", [2], [((2, 4), (0, 0), allv)])
        add("set-wrongtype", [3], [((2, 4), (0, 0), allv)])
        add("load-wrongtype", [4], [((1, 4), (0, 0), allv)])
        add("save-wrongtype", [5], [((1, 4), (0, 0), allv)])
        add("load-path", [6], [((0, 8), (0, 0), oneval)])
        add("save-path", [7], [((0, 8), (0, 0), oneval)])
        for t in (tsel[:3] if tier == "quick" else range(nn)):
            add("set2-t%d" % t, [8], [((3, 3), (t, t), allv)])
        add("nonjson", [9], [((3, 3), (0, 0), oneval)])
        # sequences: bad first, then a valid-looking set
        for first in ([9, 3, 2] if tier == "quick" else [9, 3, 2, 4, 5, 6]):
            add("seq-%d-set" % first, [first, 0], [((3, 3), (0, 0), (1, 3)), ((3, 3), (0, 1), (0, 1))])
        # a value that cannot be encoded, then a save (to another file / to the session's file)
        add("seq-set-save", [0, 7], [((3, 3), tall, (2, 2), (0, 0), (5, len(SVALS) - 1)), ((3, 3), (0, 0), oneval, (0, 0))])
        add("seq-set-savenull", [0, 5], [((3, 3), tall, (2, 2), (0, 0), (5, len(SVALS) - 1)), ((3, 3), (0, 0), (3, 3))])
        if tier == "thorough":
            add("seq3", [0, 9, 0], [((3, 3), (0, 2), (0, 2)), ((3, 3), (0, 0), oneval), ((3, 3), (0, 2), (0, 2))])
    return out
