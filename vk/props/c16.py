"""C16 -- menuconfig never drops unsaved edits and knows when it is clean."""
import random

from ..engine import Job
from .. import state as ST
from ..state import K, Dom
from ..shims import MemFS, install_fs
from .. import ui
from .common import state_jobs, decode_state
from .c15 import pick
from .c17 import TEXTS

INFO = {
    "bounds": {
        "quick": "trees T15, T07, T06, T09 and menuconfig fixtures x initial file in {absent, written by the tool for a (sampled) user state, hand-edited: default markers stripped / unknown entry added / duplicate entry added / (tree T13b) an entry given through a deprecated name}: every sequence of 2 UI actions (toggle, typed value, choice member select, reset option / menu, load other file, save, navigation), first action fixed per job; after the start and after every action: if needs_save() is false the file equals what saving would write (tool-written files: byte-identical; hand-edited files: same values and same user/default status when loaded fresh); right after a save and right after loading a tool-written file needs_save() is false",
        "thorough": "2 actions on more trees / fixtures / start states; 3 actions on T07, T09, T15 with the kinds of the first two fixed per job, rows < 5, texts < 3",
    },
    "outside": ["Textual widgets", "longer sequences"],
    "stubs": ["stand-in for MenuConfigApp's self (vk/ui.py)", "memfs"],
}
BUDGET = {"quick": 240, "thorough": 800}

CONF = "/m/proj/sdkconfig"


def _would_write(k):
    from esp_menuconfig.idf_headers import idf_sdkconfig_header

    return k._config_contents(idf_sdkconfig_header(), write_deprecated=False)


def _semantic_equal(tid, fs, k):
    k2 = ST.build(tid, renames=bool(ST.rename_files(tid)))
    k2.load_config(CONF)
    for s in k.unique_defined_syms:
        s2 = k2.syms[s.name]
        if s.str_value != s2.str_value:
            return False
        if bool(s.config_string) != bool(s2.config_string):
            return False
        if s.config_string and s.has_active_default_value() != s2.has_active_default_value():
            return False
    return True


def session(ctx, *args):
    tid, dom, slots, vals = decode_state(ctx, args)
    n = ctx["nstate"]
    fs = MemFS()
    fs.dirs.add("/m/proj")
    install_fs(fs, K)
    ren = bool(ST.rename_files(tid))
    k0 = ST.build(tid, renames=ren)
    ST.apply_state(k0, slots, vals)
    init = ctx["init"]
    tool_written = False
    if init != "absent":
        k0.write_config(CONF)
        text = fs.read(CONF)
        tool_written = init == "tool"
        if init == "nomarks":
            text = "".join(line + "\n" for line in text.split("\n") if line and line != "# default:" and not (line.startswith("#") and not line.endswith("is not set")))
        elif init == "unknown":
            text += "CONFIG_NOT_IN_TREE=y\n"
        elif init == "deprecated":
            # hand-edited: one assignment is given through a deprecated name instead of the new one
            from .c07 import rename_map

            lines = text.split("\n")
            for old, (new, inv) in rename_map(tid).items():
                hit = [i for i, line in enumerate(lines) if line.startswith("CONFIG_%s=" % new)]
                if hit and not inv:
                    lines[hit[0]] = lines[hit[0]].replace("CONFIG_%s=" % new, "CONFIG_%s=" % old, 1)
                    if hit[0] > 0 and lines[hit[0] - 1] == "# default:":
                        lines[hit[0] - 1] = ""
                    break
            text = "\n".join(lines)
        elif init == "dup":
            first = [line for line in text.split("\n") if line.startswith("CONFIG_")]
            if first:
                text += first[0] + "\n"
        fs.put(CONF, text)
    # another configuration to load: the Kconfig defaults with the first option toggled
    k1 = ST.build(tid)
    for s in k1.unique_defined_syms:
        if s.orig_type == K.BOOL and s.choice is None and any(nd.prompt for nd in s.nodes):
            s.set_value(0 if s.str_value == "y" else 2)
            break
    k1.write_config("/m/proj/other")
    # a second one that differs from the session's file only in which choice member is selected
    k3 = ST.build(tid)
    ST.apply_state(k3, slots, vals)
    for c in k3.unique_choices:
        vm = [m for m in c.syms if m.visibility]
        if len(vm) > 1:
            cur = c.selection
            nxt = [m for m in vm if m is not cur][0]
            nxt.set_value(2)
            break
    k3.write_config("/m/proj/other2")
    k = ST.build(tid, renames=ren)
    st, app = ui.start(k, fs)
    nodes = list(k.node_iter())

    def clean_ok():
        if st.needs_save():
            return True
        cur = fs.read(CONF)
        if cur is None:
            return False
        if tool_written:
            return cur == _would_write(k)
        return _semantic_equal(tid, fs, k)

    if tool_written and st.needs_save():
        return False  # a file the tool wrote itself must not need saving
    if not clean_ok():
        return False
    rest = args[n:]
    for j in range(ctx["nact"]):
        a, x, ti = rest[3 * j : 3 * j + 3]
        if j == 0:
            a = ctx["first"]
        ui.act(app, a, x, (lambda sym, ti=ti: pick(TEXTS[sym.orig_type], ti)), nodes)
        if a == 9:
            if fs.read(CONF) is None:
                return False
            tool_written = True
            if st.needs_save():
                return False  # right after a successful save
        if not clean_ok():
            return False
    return True


def jobs(tier, seed, excluded=()):
    rng = random.Random(seed)
    dom = Dom(int_max=-1, int_cands=["7", "3"], str_mode="cand", str_cands=["p"], hex_cands=["0x1f"], float_cands=["0.25"])
    if tier == "quick":
        trees, nact, tmo, budget = ["T15", "T07", "T06", "T09"], 2, 150, 2
        inits = ["tool", "absent", "nomarks", "unknown", "dup"]
    else:
        trees, nact, tmo, budget = ["T15", "T07", "T06", "T09", "T08", "T03", "T01"] + ["F:menuconfig/kconfigs/Kconfig." + x for x in ("default_value_changed", "indirect_sets", "choice_default", "pilot_all_scalars")], 2, 300, 3
        inits = ["tool", "absent", "nomarks", "unknown", "dup"]
    out = []
    trees = trees + ["T13b"]
    firsts = [1, 2, 4, 5, 8, 9, 0, 7]  # Enter, Space, y/n, reset, load, save, move, jump
    for tid in trees:
        nn = len(list(ST.build(tid).node_iter()))
        for init in (inits + ["deprecated"] if ST.rename_files(tid) else inits):
            fl = firsts if (init == "tool" or tier == "thorough") else rng.sample(firsts, 2)
            for first in fl:
                ep, epre = [], []
                for j in range(nact):
                    ep += [("a%d" % j, "int"), ("x%d" % j, "int"), ("y%d" % j, "int")]
                    epre.append("0 <= a%d <= 9 and 0 <= x%d < %d and 0 <= y%d <= 9" % (j, j, max(8, nn), j))
                out += state_jobs("C16", "vk.props.c16", "session", [tid], dom, budget, 1, tmo, rng, {"nact": nact, "first": first, "init": init}, tag="%s-a%d" % (init, first), extra_params=ep, extra_pre=" and ".join(epre) + " and a0 == %d" % first, extra_samples=lambda r, first=first: [x for j in range(nact) for x in ((first if j == 0 else r.randint(0, 9)), r.randint(0, 7), r.randint(0, 9))])
    if tier == "thorough":
        # three actions: kinds of the first two fixed per job, rows / texts from a reduced range
        for tid in ["T07", "T09", "T15"]:
            for init in ("tool", "nomarks"):
                for f0 in firsts:
                    for f1 in rng.sample(firsts, 3):
                        ep, epre = [], []
                        for j in range(3):
                            ep += [("a%d" % j, "int"), ("x%d" % j, "int"), ("y%d" % j, "int")]
                            epre.append("0 <= a%d <= 9 and 0 <= x%d < 5 and 0 <= y%d <= 2" % (j, j, j))
                        out += state_jobs("C16", "vk.props.c16", "session", [tid], dom, 1, 1, tmo, rng, {"nact": 3, "first": f0, "init": init}, tag="%s-a%d-a%d-3" % (init, f0, f1), extra_params=ep, extra_pre=" and ".join(epre) + " and a0 == %d and a1 == %d" % (f0, f1), extra_samples=lambda r, f0=f0, f1=f1: [f0, r.randrange(5), r.randint(0, 2), f1, r.randrange(5), r.randint(0, 2), r.randint(0, 9), r.randrange(5), r.randint(0, 2)])
    return out
