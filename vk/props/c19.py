"""C19 -- the deprecated-options check depends only on a file's own scope."""
import itertools
import random

from ..engine import Job
from ..shims import MemFS, install_fs, install_log, notrace

import kconfcheck.check_deprecated_options as CD

install_log(CD)

INFO = {
    "bounds": {
        "quick": "fixed directory skeleton (IDF root, components/c1, components/c1/test_apps, projects p1, p1/main, p1/nested, p1/nested/main, p2, an orphan directory, an --includes directory, two further rename files that are only passed explicitly) with symbolic file-system facts: per project directory {no CMakeLists, CMakeLists without project(), project root} (12 of the 27 combinations, 6 fixed + 6 seeded), per directory {no rename file, rename file deprecating O1, rename file deprecating O2} (all directories symbolic, three of them two-valued in the quick tier); per job 8 argument orders: all files outer-first, all files innermost-first, 2 seeded subsets / orders, 4 seeded orders containing the explicitly passed rename files (adjacent, separated, first, last). The selectors are decoded by forking; the real checker then runs on concrete facts (untraced).",
        "thorough": "all 27 project-fact combinations x every rename fact three-valued, 12 seeded + all 10 explicit-file orders",
    },
    "outside": ["directory trees outside the skeleton", "CMake syntax beyond the two CMakeLists texts", "the --exclude-submodules option"],
    "stubs": ["memfs behind kconfcheck.check_deprecated_options (open, os.path, os.walk)", "IDF_PATH points at the skeleton"],
}
BUDGET = {"quick": 300, "thorough": 800}

IDF = "/m/idf"
DIRS = {
    "c1": IDF + "/components/c1",
    "c1t": IDF + "/components/c1/test_apps",  # a project nested below components/: its rename file is still global
    "p1": IDF + "/examples/p1",
    "p1m": IDF + "/examples/p1/main",
    "pn": IDF + "/examples/p1/nested",
    "pnm": IDF + "/examples/p1/nested/main",
    "p2": IDF + "/examples/p2",
    "orph": IDF + "/orphan",
    "inc": "/m/inc",
}
PROJ_DIRS = ["p1", "pn", "p2"]
REN_DIRS = ["c1", "c1t", "p1", "p1m", "pn", "pnm", "p2", "orph", "inc"]
CHECKED = ["p1", "p1m", "pn", "pnm", "p2", "orph"]  # directories holding an sdkconfig.defaults
# entries 6 and 7 of an order stand for two sdkconfig.rename files passed explicitly on the command line (they
# deprecate O3 / O4 for every checked file, wherever they appear in the argument list)
EXPLICIT = {6: (IDF + "/orphan/x1/sdkconfig.rename", 3), 7: (IDF + "/orphan/x2/sdkconfig.rename", 4)}
EXPLICIT_ORDERS = [(6, 7, 0, 1, 2, 3, 4, 5), (0, 4, 6, 7, 5), (7, 6, 4, 5), (6, 0, 7, 4, 5, 2), (4, 5, 6), (5, 7, 4), (4, 5, 6, 7), (6, 7, 5, 4, 3), (4, 6, 7, 5), (6, 4, 7, 5)]
ORDERS = list(itertools.permutations(range(6), 3)) + [(0, 1, 2, 3, 4, 5), (5, 4, 3, 2, 1, 0), (2, 0, 4, 1, 3, 5), (0, 3, 2), (3, 0), (0, 3)]


def _pick(seq, i):
    for j, x in enumerate(seq):
        if i == j:
            return x
    return seq[-1]


def _mkfs(proj, ren):
    fs = MemFS()
    for d in DIRS.values():
        fs.makedirs(d, exist_ok=True)
    for name, fact in proj.items():
        if fact == 1:
            fs.put(DIRS[name] + "/CMakeLists.txt", "cmake_minimum_required(VERSION 3.16)\nidf_component_register(SRCS main.c)\n# project(x) in a comment\n")
        elif fact == 2:
            fs.put(DIRS[name] + "/CMakeLists.txt", "cmake_minimum_required(VERSION 3.16)\ninclude($ENV{IDF_PATH}/tools/cmake/project.cmake)\n  project (demo)\n")
    for name, fact in ren.items():
        if fact:
            fs.put(DIRS[name] + "/sdkconfig.rename", "# renames\nCONFIG_O%d    CONFIG_NEW_%d\n" % (fact, fact))
    for fn, num in EXPLICIT.values():
        fs.makedirs(fn.rsplit("/", 1)[0], exist_ok=True)
        fs.put(fn, "CONFIG_O%d CONFIG_NEW_%d\n" % (num, num))
    for name in CHECKED:
        extra = "CONFIG_O2=5\nCONFIG_O3=y\n" if name == "p2" else ("CONFIG_O4=y\n" if name == "orph" else "")
        fs.put(DIRS[name] + "/sdkconfig.defaults", "# defaults\nCONFIG_O1=y\n" + extra + "CONFIG_OTHER=n\n")
    return fs


def _spec(proj, ren, name, explicit=()):
    """flagged? -- from the facts alone, no memo; `explicit`: option numbers deprecated by explicitly passed files"""

    def nearest(dname):
        chain = {"p1": ["p1"], "p1m": ["p1"], "pn": ["pn", "p1"], "pnm": ["pn", "p1"], "p2": ["p2"], "orph": [], "c1": [], "c1t": ["c1t"], "inc": []}[dname]
        for c in chain:
            if proj.get(c) == 2:
                return c
        return None

    used = {1, 2, 3} if name == "p2" else ({1, 4} if name == "orph" else {1})
    glob = ({ren["c1"], ren["c1t"], ren["inc"]} - {0}) | set(explicit)
    root = nearest(name)
    local = set()
    if root is not None:
        for d in REN_DIRS:
            if d in ("c1", "c1t", "inc"):
                continue
            if ren[d] and nearest(d) == root:
                local.add(ren[d])
    return bool(used & (glob | local))


def _run(fs, order):
    install_fs(fs, CD)
    import os

    os.environ["IDF_PATH"] = IDF
    files = [EXPLICIT[i][0] if i in EXPLICIT else DIRS[CHECKED[i]] + "/sdkconfig.defaults" for i in order]
    files, g, loc, ign, cache, root = CD._prepare_deprecated_options(["/m/inc"], [], list(files))
    out = {}
    for f in files:
        r = CD.check_deprecated_options(f, g, loc, ign, cache, root)
        out[f] = r
    return out


def scope(ctx, rp1, rp1m, rpn, rpnm, rp2, rorph, rc1=None, rinc=None, rc1t=None):
    proj = dict(ctx["proj"])
    if rc1 is None:
        ren = {"c1": ctx["rc1"], "inc": ctx["rinc"], "c1t": ctx.get("rc1t", 0)}
    else:
        ren = {"c1": _pick((0, 1, 2), rc1), "inc": _pick((0, 1), rinc), "c1t": _pick((0, 1, 2), rc1t)}
    proj["c1t"] = 2
    # decode the selectors into concrete facts (one fork per fact)
    for k, v in (("p1", rp1), ("p1m", rp1m), ("pn", rpn), ("pnm", rpnm), ("p2", rp2), ("orph", rorph)):
        ren[k] = _pick((0, 1, 2), v)
    # from here on every fact is a concrete value (the selectors were decoded by forking above): the real checker
    # runs on concrete inputs, which needs no symbolic tracing
    with notrace():
        return _verdicts(ctx, proj, ren)


def _verdicts(ctx, proj, ren):
    results = [_run(_mkfs(proj, ren), o) for o in ctx["orders"]]
    for name in CHECKED:
        f = DIRS[name] + "/sdkconfig.defaults"
        for o, res in zip(ctx["orders"], results):
            explicit = [EXPLICIT[i][1] for i in o if i in EXPLICIT]
            want = not _spec(proj, ren, name, explicit)  # check returns True for OK, False for "uses deprecated options"
            if f in res and res[f] != want:
                return False
    return True


def jobs(tier, seed, excluded=()):
    rng = random.Random(seed)
    combos = list(itertools.product((0, 1, 2), repeat=3))
    if tier == "quick":
        must = [(2, 2, 2), (2, 0, 2), (0, 2, 0), (2, 1, 2), (1, 2, 2), (0, 0, 0)]
        rest = [c for c in combos if c not in must]
        rng.shuffle(rest)
        combos = must + rest[:6]
        norders, tmo = 4, 240
    else:
        norders, tmo = 12, 600
    out = []
    for (a, b, c) in combos:
        # all files outer-project-first, all files innermost-first, seeded subsets / orders, and orders with
        # explicitly passed rename files
        orders = [[0, 1, 2, 3, 4, 5], [5, 4, 3, 2, 1, 0]] + [list(o) for o in rng.sample(ORDERS, norders - 2)] + [list(o) for o in (EXPLICIT_ORDERS if tier == "thorough" else rng.sample(EXPLICIT_ORDERS, 4))]
        proj = {"p1": a, "pn": b, "p2": c}
        names = ("rp1", "rp1m", "rpn", "rpnm", "rp2", "rorph", "rc1", "rinc", "rc1t")
        params = [(p, "int") for p in names]
        for split, split2 in [(x, y) for x in (0, 1, 2) for y in ((0, 1, 2) if tier == "thorough" else (None,))]:
            pre = " and ".join("0 <= %s <= %d" % (p, 1 if p == "rinc" else 2) for p in names) + " and rpn == %d" % split
            pre += (" and rorph <= 1 and rp1m <= 1 and rp2 <= 1" if tier == "quick" else " and rc1t == %d" % split2)
            smp = [[rng.randint(0, 2), rng.randint(0, 1), split, rng.randint(0, 2), rng.randint(0, 1), rng.randint(0, 1), rng.randint(0, 2), rng.randint(0, 1), rng.randint(0, 2) if split2 is None else split2] for _ in range(3)]
            out.append(Job("C19", "C19-proj%d%d%d-n%d%s" % (a, b, c, split, "" if split2 is None else "-t%d" % split2), "vk.props.c19", "scope", {"proj": proj, "orders": orders}, params, pre, timeout=tmo, samples=smp, tree="skeleton p1=%d nested=%d p2=%d" % (a, b, c)))
    return out
