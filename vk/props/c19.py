"""C19 -- the deprecated-options check depends only on a file's own scope."""
import itertools
import random

from ..engine import Job
from ..shims import MemFS, install_fs, install_log

import kconfcheck.check_deprecated_options as CD

install_log(CD)

INFO = {
    "bounds": {
        "quick": "fixed directory skeleton (IDF root, components/c1, projects p1, p1/main, p1/nested, p1/nested/main, p2, an orphan directory, an --includes directory) with symbolic file-system facts: per project directory {no CMakeLists, CMakeLists without project(), CMakeLists with project()}, per directory a rename file renaming {nothing, O1, O2}; five defaults files (each assigning O1, one also O2) checked outer-first, innermost-first and in seeded orders / subsets; project facts and the two global rename facts are fixed per job (sampled), the five project-local rename facts are symbolic",
        "thorough": "all 27 project-fact combinations, more orders",
    },
    "outside": ["directory trees outside the skeleton", "CMake syntax beyond the two CMakeLists texts", "the --exclude-submodules option"],
    "stubs": ["memfs behind kconfcheck.check_deprecated_options (open, os.path, os.walk)", "IDF_PATH points at the skeleton"],
}
BUDGET = {"quick": 200, "thorough": 800}

IDF = "/m/idf"
DIRS = {
    "c1": IDF + "/components/c1",
    "c1t": IDF + "/components/c1/test_apps",  # a project nested below components/: its rename file is still global
    "p1": IDF + "/examples/p1",
    "p1m": IDF + "/examples/p1/main",
    "pn": IDF + "/examples/p1/nested",
    "pnm": IDF + "/examples/p1/nested/main",
    "p2": IDF + "/examples/p2",
    "orph": IDF + "/orphan",
    "inc": "/m/inc",
}
PROJ_DIRS = ["p1", "pn", "p2"]
REN_DIRS = ["c1", "c1t", "p1", "p1m", "pn", "pnm", "p2", "orph", "inc"]
CHECKED = ["p1", "p1m", "pn", "pnm", "p2", "orph"]  # directories holding an sdkconfig.defaults
ORDERS = list(itertools.permutations(range(6), 3)) + [(0, 1, 2, 3, 4, 5), (5, 4, 3, 2, 1, 0), (2, 0, 4, 1, 3, 5), (0, 3, 2), (3, 0), (0, 3)]


def _pick(seq, i):
    for j, x in enumerate(seq):
        if i == j:
            return x
    return seq[-1]


def _mkfs(proj, ren):
    fs = MemFS()
    for d in DIRS.values():
        fs.makedirs(d, exist_ok=True)
    for name, fact in proj.items():
        if fact == 1:
            fs.put(DIRS[name] + "/CMakeLists.txt", "cmake_minimum_required(VERSION 3.16)\nidf_component_register(SRCS main.c)\n# project(x) in a comment\n")
        elif fact == 2:
            fs.put(DIRS[name] + "/CMakeLists.txt", "cmake_minimum_required(VERSION 3.16)\ninclude($ENV{IDF_PATH}/tools/cmake/project.cmake)\n  project (demo)\n")
    for name, fact in ren.items():
        if fact:
            fs.put(DIRS[name] + "/sdkconfig.rename", "# renames\nCONFIG_O%d    CONFIG_NEW_%d\n" % (fact, fact))
    for name in CHECKED:
        extra = "CONFIG_O2=5\n" if name == "p2" else ""
        fs.put(DIRS[name] + "/sdkconfig.defaults", "# defaults\nCONFIG_O1=y\n" + extra + "CONFIG_OTHER=n\n")
    return fs


def _spec(proj, ren, name):
    """flagged? -- from the facts alone, no memo"""

    def nearest(dname):
        chain = {"p1": ["p1"], "p1m": ["p1"], "pn": ["pn", "p1"], "pnm": ["pn", "p1"], "p2": ["p2"], "orph": [], "c1": [], "c1t": ["c1t"], "inc": []}[dname]
        for c in chain:
            if proj.get(c) == 2:
                return c
        return None

    used = {1, 2} if name == "p2" else {1}
    glob = {ren["c1"], ren["c1t"], ren["inc"]} - {0}
    root = nearest(name)
    local = set()
    if root is not None:
        for d in REN_DIRS:
            if d in ("c1", "c1t", "inc"):
                continue
            if ren[d] and nearest(d) == root:
                local.add(ren[d])
    return bool(used & (glob | local))


def _run(fs, order):
    install_fs(fs, CD)
    import os

    os.environ["IDF_PATH"] = IDF
    files = [DIRS[CHECKED[i]] + "/sdkconfig.defaults" for i in order]
    files, g, loc, ign, cache, root = CD._prepare_deprecated_options(["/m/inc"], [], list(files))
    out = {}
    for f in files:
        r = CD.check_deprecated_options(f, g, loc, ign, cache, root)
        out[f] = r
    return out


def scope(ctx, rp1, rp1m, rpn, rpnm, rp2, rorph):
    proj = dict(ctx["proj"])
    ren = {"c1": ctx["rc1"], "inc": ctx["rinc"], "c1t": ctx.get("rc1t", 0)}
    proj["c1t"] = 2
    # decode the selectors into concrete facts (one fork per fact)
    for k, v in (("p1", rp1), ("p1m", rp1m), ("pn", rpn), ("pnm", rpnm), ("p2", rp2), ("orph", rorph)):
        ren[k] = _pick((0, 1, 2), v)
    results = [_run(_mkfs(proj, ren), o) for o in ctx["orders"]]
    for name in CHECKED:
        f = DIRS[name] + "/sdkconfig.defaults"
        want = not _spec(proj, ren, name)  # check returns True for OK, False for "uses deprecated options"
        for res in results:
            if f in res and res[f] != want:
                return False
    return True


def jobs(tier, seed, excluded=()):
    rng = random.Random(seed)
    combos = list(itertools.product((0, 1, 2), repeat=3))
    if tier == "quick":
        must = [(2, 2, 2), (2, 0, 2), (0, 2, 0), (2, 1, 2), (1, 2, 2), (0, 0, 0)]
        rest = [c for c in combos if c not in must]
        rng.shuffle(rest)
        combos = must + rest[:6]
        norders, tmo = 2, 240
    else:
        norders, tmo = 3, 900
    out = []
    for (a, b, c) in combos:
        # all files outer-project-first, all files innermost-first, plus seeded subsets / orders
        orders = [[0, 1, 2, 3, 4, 5], [5, 4, 3, 2, 1, 0]] + [list(o) for o in rng.sample(ORDERS, max(0, norders - 2))]
        proj = {"p1": a, "pn": b, "p2": c}
        rc1, rinc, rc1t = rng.choice((0, 0, 1, 2)), rng.choice((0, 0, 1)), rng.choice((0, 1, 1, 2))
        names = ("rp1", "rp1m", "rpn", "rpnm", "rp2", "rorph")
        params = [(p, "int") for p in names]
        for split in (0, 1, 2):
            pre = " and ".join("0 <= %s <= 2" % p for p in names) + " and rpn == %d" % split + (" and rorph <= 1 and rp1m <= 1 and rp2 <= 1" if tier == "quick" else "")
            smp = [[rng.randint(0, 2), rng.randint(0, 1), split, rng.randint(0, 2), rng.randint(0, 1), rng.randint(0, 1)] for _ in range(3)]
            out.append(Job("C19", "C19-proj%d%d%d-g%d%d-n%d" % (a, b, c, rc1, rinc, split), "vk.props.c19", "scope", {"proj": proj, "orders": orders, "rc1": rc1, "rinc": rinc, "rc1t": rc1t}, params, pre, timeout=tmo, samples=smp, tree="skeleton p1=%d nested=%d p2=%d components-rename=%d components-test_apps-rename=%d includes-rename=%d nested-rename=%d" % (a, b, c, rc1, rc1t, rinc, split)))
    return out
