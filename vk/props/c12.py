"""C12 -- dependency sync flags every changed option, even across interrupted runs."""
import random

from ..engine import Job
from .. import state as ST
from ..state import K, Dom
from ..shims import MemFS, install_fs, Crash
from .common import state_jobs, decode_state, op_value_bounds
from .c03 import _apply_op
from .c07 import rename_map

INFO = {
    "bounds": {
        "quick": "trees T01 (bool), T13b (aliases incl. aliased options that can disappear), T05 (string values) and tree versions adding / removing an option (thorough: + T03, T06, T07, T13): pre-state with up to 3-4 free options, completed sync, one symbolic operation, sync with symbolic crash point (before any mutating file operation, or inside a write after p in {0,1,7} characters), one more symbolic operation before the rerun, rerun from a fresh instance",
        "thorough": "more free options, all crash points, two tree-version pairs more",
    },
    "outside": ["crash = process death between two Python-level file operations or inside one write(); no fsync / power-loss reordering", "histories longer than sync, op, crashed sync, op, sync"],
    "stubs": ["memfs with logical clock, operation journal and crash injection (esp_kconfiglib.core's open / os / exists)"],
}
BUDGET = {"quick": 330, "thorough": 800}

D = "/m/deps"


def _H(k, tid):
    """build-visible value per option name and per deprecated alias"""
    h = {}
    for s in k.unique_defined_syms:
        h[s.name] = K.Kconfig._header_string(k, s)
    for old, (new, inv) in rename_map(tid).items():
        if new in h:
            h[old] = h[new]
    return h


def _cdep(name):
    return D + "/" + name.lower().replace("_", "/") + ".cdep"


def _fresh_like(tid, k, renames):
    uv, picks = ST.user_state(k)
    k2 = ST.build(tid, renames=renames)
    # only options that exist in the (possibly different) tree version
    uv = {n: v for n, v in uv.items() if n in k2.syms and k2.syms[n].nodes}
    picks = [p if (p is None or p in k2.syms) else None for p in picks][: len(k2.unique_choices)]
    while len(picks) < len(k2.unique_choices):
        picks.append(None)
    ST.apply_user_state(k2, uv, picks)
    return k2


def sync(ctx, *args):
    tid, dom, slots, vals = decode_state(ctx, args)
    n = ctx["nstate"]
    ok1, ov1, crash, short, ok2, ov2 = args[n : n + 6]
    odom = Dom.from_json(ctx["odom"])
    ren = ctx.get("renames", False)
    tid2 = ctx.get("new", tid)  # tree version used after the first sync
    fs = MemFS()
    install_fs(fs, K)
    k = ST.build(tid, renames=ren)
    ST.apply_state(k, slots, vals)
    k.sync_deps(D)  # completed sync no. 1
    h0 = _H(k, tid)
    t0 = fs.clock
    if tid2 != tid:
        k = _fresh_like(tid2, k, ren)
    slots2 = ST.layout(tid2) if tid2 != tid else slots
    t1 = [sl for sl in slots2 if sl.name == ctx["t1"]]
    t2 = [sl for sl in slots2 if sl.name == ctx["t2"]]
    if t1:
        _apply_op(k, t1[0], odom, ok1, ov1)
    fs.arm(None if crash < 0 else crash, (0, 1, 7)[short])
    completed = True
    try:
        k.sync_deps(D)
    except Crash:
        completed = False
    fs.disarm()
    if completed:
        h1 = _H(k, tid2)
        names = set(h0) | set(h1)
        for name in names:
            changed = h0.get(name, "") != h1.get(name, "")
            touched = fs.mtime.get(_cdep(name), -1) > t0
            if changed and not touched:
                return False
            if not changed and touched:
                return False
        j0 = len(fs.journal)
        k.sync_deps(D)
        if len(fs.journal) != j0:
            return False  # an immediately repeated sync touched / wrote something
        return True
    # interrupted: the configuration may change again before the rerun, which happens in a new process
    if t2:
        _apply_op(k, t2[0], odom, ok2, ov2)
    k2 = _fresh_like(tid2, k, ren)
    k2.sync_deps(D)
    h2 = _H(k2, tid2)
    for name in set(h0) | set(h2):
        if h0.get(name, "") != h2.get(name, "") and not fs.mtime.get(_cdep(name), -1) > t0:
            return False
    return True


def jobs(tier, seed, excluded=()):
    rng = random.Random(seed)
    dom = Dom(int_max=9, int_cands=[], str_mode="cand", str_cands=["p", "q r", ""], hex_cands=["0x1f"], float_cands=["0.25"])
    odom = Dom(int_max=9, int_cands=["-3"], str_mode="cand", str_cands=["p", "zz", ""], hex_cands=["0x1f", "0x2"], float_cands=["0.25", "5"])
    cfgs = [("T01", None, False), ("T13b", None, True), ("T05", None, False), ("E_sync_empty", None, False), ("T01", "T01:mut:addopt", False), ("T01", "T01:mut:rmopt", False), ("T01", "T01:mut:rmdef", False)]
    if tier == "quick":
        nfree, npairs, maxcrash, tmo = 4, 3, 9, 200
    else:
        nfree, npairs, maxcrash, tmo = 8, 12, 12, 300
        cfgs += [("T03", None, False), ("T07", None, False), ("T13", None, True), ("T03", "T03:mut:addopt", False), ("T06", None, False)]
    out = []
    for tid, new, ren in cfgs:
        slots = ST.layout(tid)
        names = [sl.name for sl in slots if sl.kind != "pick"]
        pairs = [(a, b) for a in names for b in names if a != b]
        rng.shuffle(pairs)
        if new is None:
            # every option is the first operation's target once (second target seeded)
            chosen = [(a, rng.choice([b for b in names if b != a])) for a in names]
            if tier == "quick" and not ren:
                rng.shuffle(chosen)
                chosen = chosen[: max(npairs, 4)]
        else:
            chosen = pairs[:npairs]
        for a, b in chosen:
            sa = [sl for sl in slots if sl.name == a][0]
            sb = [sl for sl in slots if sl.name == b][0]
            ep = [("ok1", "int"), ("ov1", "int"), ("crash", "int"), ("short", "int"), ("ok2", "int"), ("ov2", "int")]
            epre = "1 <= ok1 <= 2 and %s and -1 <= crash <= %d and 0 <= short <= 2 and 1 <= ok2 <= 2 and %s" % (op_value_bounds(sa, odom, "ov1"), maxcrash, op_value_bounds(sb, odom, "ov2"))
            ctx = {"odom": odom.to_json(), "t1": a, "t2": b, "renames": ren}
            if new:
                ctx["new"] = new
            out += state_jobs("C12", "vk.props.c12", "sync", [tid], dom, nfree, 1, tmo, rng, ctx, tag="%s%s-%s" % ((new.split(":")[-1] + "-") if new else "", a, b), extra_params=ep, extra_pre=epre, extra_samples=lambda r: [r.randint(1, 2), 0, r.randint(-1, 8), r.randint(0, 2), r.randint(1, 2), 0], must_free=lambda t_, s_, a=a, b=b: [a, b])
    return out
