"""C01 -- option values follow the documented precedence and visibility rules (real evaluator vs executable spec);
a user value on an option whose prompt is hidden has no effect on any output."""
import random

from ..engine import Job
from .. import state as ST
from ..state import K, Dom
from ..shims import MemFS, install_fs
from .. import outputs as O
from ..trees.spec import Spec
from .common import state_jobs, decode_state

INFO = {
    "bounds": {
        "quick": "templates T01-T12, T15, 28 edge trees and 4 seeded random trees (thorough: 24) (one per dependency-edge kind): every user state inside the domain (bools 3-state incl. hidden and promptless options; ints symbolic 0..200 plus malformed / negative / out-of-range candidates; hex / float / string candidates; choice picks), sampled partitions for the larger trees: value and visibility of every option equal the executable specification (vk/trees/spec.py); second harness: for each option, if its prompt is hidden, replacing its user value by any other leaves every value and every output text unchanged",
        "thorough": "complete partitions, ints to 10^5, random trees",
    },
    "outside": ["trees outside the corpus", "symbol-valued `set` on int/hex/float targets (rejected as 'not a valid number' by the implementation; not in the documented language)", "tristate m"],
    "stubs": ["executable specification vk/trees/spec.py (trusted, written from language.rst / defaults.rst / the property statement; validated against the real evaluator on seeded random states on every run)"],
}
BUDGET = {"quick": 240, "thorough": 800}
REGION_MARKER = "default_marker_of_hidden_option_with_user_value"


def values(ctx, *args):
    tid, dom, slots, vals = decode_state(ctx, args)
    k = ST.build(tid)
    ST.apply_state(k, slots, vals)
    # the descriptor's pick is whatever the public API recorded as the user's selection
    sv = dict(vals)
    for ci, c in enumerate(k.unique_choices):
        sv["<pick%d>" % ci] = c._user_selection.name if c._user_selection is not None else None
    sp = Spec(ST.get_tree(tid), sv)
    for s in k.unique_defined_syms:
        if s.str_value != sp.value(s.name):
            return False
        if (2 if s.visibility else 0) != sp.vis(s.name):
            return False
    return True


def hidden(ctx, *args):
    """non-interference: a user value on an option with a hidden prompt has no effect on anything"""
    tid, dom, slots, vals = decode_state(ctx, args)
    n = ctx["nstate"]
    tname = ctx["target"]
    alt = args[n]
    tsl = [sl for sl in slots if sl.name == tname][0]
    cands = ST.slot_values(tsl, dom)
    other = None
    for j, x in enumerate(cands):
        if alt == j:
            other = x
    fs = MemFS()
    install_fs(fs, K, O.G)
    k1 = ST.build(tid)
    ST.apply_state(k1, slots, vals)
    if k1.syms[tname].visibility != 0:
        return True
    vals2 = dict(vals)
    vals2[tname] = other
    k2 = ST.build(tid)
    ST.apply_state(k2, slots, vals2)
    if k2.syms[tname].visibility != 0:
        return True  # (the other value is given through the same recipe; visibility cannot depend on the option's own value)
    if [(a, b, c) for a, b, c, d, e in ST.snapshot(k1)[0]] != [(a, b, c) for a, b, c, d, e in ST.snapshot(k2)[0]]:
        return False
    o1 = O.produce(k1, fs, d="/m/o1")
    o2 = O.produce(k2, fs, d="/m/o2")
    for key in ("header", "cmake", "json"):
        if o1[key] != o2[key]:
            return False
    if REGION_MARKER not in ctx.get("skip", []):
        return o1["sdkconfig"] == o2["sdkconfig"] and o1["autoconf"] == o2["autoconf"]
    # known finding: the '# default:' marker of the hidden option itself depends on whether a user value exists;
    # everything else (all values, all other markers) must still be identical
    for key in ("sdkconfig", "autoconf"):
        m1, _, d1 = O.read_sdkconfig(o1[key])
        m2, _, d2 = O.read_sdkconfig(o2[key])
        if m1 != m2 or (d1 - {tname}) != (d2 - {tname}):
            return False
    return True


def jobs(tier, seed, excluded=()):
    from ..trees import edges

    rng = random.Random(seed)
    skip = {"E_set_val_int", "E_multi_prompt"}  # (several prompts per definition are outside the executable specification)
    etrees = [e for e in edges.ids() if e not in skip]
    temps = ["T01", "T02", "T03", "T04", "T05", "T06", "T07", "T08", "T09", "T10", "T11", "T12", "T15"]
    if tier == "quick":
        dom = Dom(int_max=200, int_cands=["-3", "007", "abc", "1000000"], str_mode="cand", str_cands=["", "p", "fast", "slow", "a"], hex_cands=["0x1f", "1f", "zz", "0xfffff", "0x5"], float_cands=["5", "0.25", "1e3", "nan", "9.6"])
        out = state_jobs("C01", "vk.props.c01", "values", etrees, dom, 700, 1, 150, rng)
        out += state_jobs("C01", "vk.props.c01", "values", temps, dom, 350, 2, 150, rng)
        out += state_jobs("C01", "vk.props.c01", "values", ["R%d" % (1000 * seed + j) for j in range(4)], dom, 350, 1, 150, rng)
        hb, hn = 60, 3
    else:
        dom = Dom(int_max=100000, str_mode="cand", str_cands=["", "p", "fast", "slow", "a", 'q"'])
        out = state_jobs("C01", "vk.props.c01", "values", etrees, dom, 1500, 2, 300, rng)
        out += state_jobs("C01", "vk.props.c01", "values", temps, dom, 1200, 6, 300, rng)
        out += state_jobs("C01", "vk.props.c01", "values", ["R%d" % (1000 * seed + j) for j in range(24)], dom, 1200, 2, 300, rng)
        hb, hn = 200, 8
    for tid in temps:
        slots = ST.layout(tid)
        names = [sl.name for sl in slots if sl.kind != "pick"]
        rng.shuffle(names)
        for name in names[:hn]:
            sl = [s for s in slots if s.name == name][0]
            nv = len(ST.slot_values(sl, dom))
            out += state_jobs("C01", "vk.props.c01", "hidden", [tid], dom, hb, 1, 150 if tier == "quick" else 300, rng, {"target": name, "skip": list(excluded)}, tag="hidden-" + name, extra_params=[("alt", "int")], extra_pre="0 <= alt < %d" % nv, extra_samples=lambda r, nv=nv: [r.randrange(nv)], must_free=lambda a, b, name=name: [name])
    return out
