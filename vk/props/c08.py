"""C08 -- inferred values stay inferred; user values stay user values (default-marked entries never pin a value)."""
import random

from ..engine import Job
from .. import state as ST
from ..state import K, Dom
from ..shims import MemFS, install_fs
from .common import state_jobs, decode_state, op_value_bounds
from .c03 import _apply_op
from .c02 import _recorder

INFO = {
    "bounds": {
        "quick": "clause 1: trees T01,T03,T05,T06,T07 (+edge trees with set/choice): every user state, file written by the tool, loaded with and without its default-marked entries into fresh instances, compared now and after one symbolic operation; clause 2: 13 (old tree, new tree) pairs (changed default literal / condition / range, added / removed / promptless option, choice default) x policy {sdkconfig, kconfig}: every user state of the old tree",
        "thorough": "more partitions, all templates, wider value domains",
    },
    "outside": ["policy `interactive` (excluded by the property)", "tree pairs outside the mutation list", "edit sequences longer than one operation after loading"],
    "stubs": ["memfs", "report recorder on the loading instance"],
}
BUDGET = {"quick": 420, "thorough": 800}

CONF = "/m/sdkconfig"


def _stripped(k):
    """the file's assignments without the default-marked entries (built from the writer's own per-option strings)"""
    out = []
    for s in k.unique_defined_syms:
        cs = s.config_string
        if cs and not cs.startswith("# default:"):
            out.append(cs)
    return "".join(out)


def _marked(k):
    """[(name, value text)] of default-marked entries the tool writes for k"""
    out = []
    for s in k.unique_defined_syms:
        cs = s.config_string
        if cs and cs.startswith("# default:"):
            out.append((s.name, s.str_value))
    return out


def _load(tid, fs, path, policy="sdkconfig"):
    k = ST.build(tid, env={"KCONFIG_DEFAULTS_POLICY": policy})
    recs = _recorder(k)
    k.load_config(path)
    return k, recs


def clause1(ctx, *args):
    tid, dom, slots, vals = decode_state(ctx, args)
    fs = MemFS()
    install_fs(fs, K)
    k = ST.build(tid)
    ST.apply_state(k, slots, vals)
    k.write_config(CONF)
    fs.put("/m/stripped", _stripped(k))
    unmarked = [s.name for s in k.unique_defined_syms if s.config_string and not s.config_string.startswith("# default:") and any(n.prompt for n in s.nodes)]
    k1, _ = _load(tid, fs, CONF, ctx.get("policy", "sdkconfig"))
    k2, _ = _load(tid, fs, "/m/stripped", ctx.get("policy", "sdkconfig"))
    if ST.snapshot(k1) != ST.snapshot(k2):
        return False
    for name in unmarked:
        s = k1.syms[name]
        if s._user_value is None:
            return False
    n = ctx["nstate"]
    if "target" in ctx:
        odom = Dom.from_json(ctx["odom"])
        _apply_op(k1, slots[ctx["target"]], odom, args[n], args[n + 1])
        _apply_op(k2, slots[ctx["target"]], odom, args[n], args[n + 1])
        if ST.snapshot(k1) != ST.snapshot(k2):
            return False
    return True


def clause2(ctx, *args):
    told, tnew, policy = ctx["tree"], ctx["new"], ctx["policy"]
    tid, dom, slots, vals = decode_state(ctx, args)
    fs = MemFS()
    install_fs(fs, K)
    k = ST.build(told)
    ST.apply_state(k, slots, vals)
    k.write_config(CONF)
    fs.put("/m/stripped", _stripped(k))
    marked = _marked(k)
    kn, recs = _load(tnew, fs, CONF, policy)
    kr, _ = _load(tnew, fs, "/m/stripped", policy)
    rec_names = [name for area, name, promptless in recs if area == "DefaultValuesArea" and not promptless]
    if policy == "kconfig":
        if ST.snapshot(kn) != ST.snapshot(kr):
            return False
    differing = []
    for name, v in marked:
        s = kn.syms.get(name)
        if s is None or not s.nodes:
            continue
        ref = kr.syms[name]
        has_prompt = any(nd.prompt for nd in s.nodes)
        if not has_prompt:
            continue
        if s.choice is not None:
            continue
        if ref.visibility and ref._user_value is None and ref.str_value != v:
            differing.append(name)
    # choices: the stored default selection is the default-marked member written as y
    mk = dict(marked)
    for c in kr.unique_choices:
        stored = [m.name for m in c.syms if mk.get(m.name) == "y"]
        if len(stored) == 1 and c.visibility and c._user_selection is None and kr.syms[stored[0]].visibility:
            sel = c.selection
            if sel is not None and sel.name != stored[0]:
                differing.append(c.name)
    if policy == "kconfig":
        # a mismatch is reported exactly for the differing stored defaults
        if sorted(set(rec_names)) != sorted(set(differing)):
            return False
    else:
        if len(differing) == 1 and differing[0] not in rec_names:
            return False
        # the stored value is kept if it is still valid and in range for a visible option
        for name, v in marked:
            s = kn.syms.get(name)
            if s is None or not s.nodes or s.choice is not None or not any(nd.prompt for nd in s.nodes):
                continue
            if not s.visibility or s._user_value is not None or s._has_active_indirect_set:
                continue
            if not s.value_is_valid(K.STR_TO_BOOL[v] if s.orig_type == K.BOOL else v):
                continue
            if s.orig_type == K.BOOL:
                # bools are bounded by select (lower) and visibility (upper); nothing to keep if select forces y
                if K.expr_value(s.rev_dep):
                    continue
            inrange = True
            if s.orig_type in (K.INT, K.HEX):
                base = 10 if s.orig_type == K.INT else 16
                for lo, hi, cond in s.ranges:
                    if K.expr_value(cond):
                        try:
                            inrange = int(lo.str_value, base) <= int(v, base) <= int(hi.str_value, base)
                        except ValueError:
                            inrange = False
                        break
            elif s.orig_type == K.FLOAT:
                for lo, hi, cond in s.ranges:
                    if K.expr_value(cond):
                        try:
                            inrange = float(lo.str_value) <= float(v) <= float(hi.str_value)
                        except ValueError:
                            inrange = False
                        break
            if not inrange:
                continue
            if len(differing) <= 1 and s.str_value != v:
                # (with several stale defaults the kept values may legitimately interact; single mismatch is unambiguous)
                return False
    if policy == "sdkconfig":
        # relational reading of "keeps the stored value": for options without select / imply the values are those of
        # loading the same file with every entry taken as a user value (markers removed)
        fs.put("/m/nomark", "".join(x.config_string.replace("# default:\n", "", 1) for x in k.unique_defined_syms if x.config_string))
        ku, _ = _load(tnew, fs, "/m/nomark", policy)
        for s_ in kn.unique_defined_syms:
            if s_.choice is not None or s_.name not in ku.syms:
                continue
            if s_.orig_type == K.BOOL and (s_.rev_dep is not kn.n or s_.weak_rev_dep is not kn.n):
                continue
            if not any(nd.prompt for nd in s_.nodes):
                continue
            if s_.str_value != ku.syms[s_.name].str_value:
                return False
    if policy == "sdkconfig" and "target" in ctx:
        # a stored default that says nothing new is droppable: if the file without the entry of option D already gives D
        # its stored value, the file with the entry must give the same configuration -- now and after one further
        # operation (D keeps following whatever its Kconfig default follows; nothing gets pinned)
        n = ctx["nstate"]
        nslots = ST.layout(tnew)
        tgt = [sl for sl in nslots if sl.name == slots[ctx["target"]].name]
        odom = Dom.from_json(ctx["odom"])
        done = 0
        for name, v in marked:
            d = kn.syms.get(name)
            if d is None or not d.nodes or d.choice is not None or not any(nd.prompt for nd in d.nodes):
                continue
            if done >= 3:
                break
            done += 1
            fs.put("/m/dropone", "".join(x.config_string for x in k.unique_defined_syms if x.config_string and x.name != name))
            kd, _ = _load(tnew, fs, "/m/dropone", policy)
            if kd.syms[name].str_value != v or ST.snapshot(kd) != ST.snapshot(kn):
                continue  # the entry does carry information (a stale value): C08's other clauses speak about it
            if tgt and tgt[0].name != name:
                k1, _ = _load(tnew, fs, CONF, policy)
                _apply_op(k1, tgt[0], odom, args[n], args[n + 1])
                _apply_op(kd, tgt[0], odom, args[n], args[n + 1])
                if ST.snapshot(k1) != ST.snapshot(kd):
                    return False
    # entries for options that are promptless in the new tree never pin a value
    if policy == "kconfig":
        n = ctx["nstate"]
        if "target" in ctx:
            nslots = ST.layout(tnew)
            name = slots[ctx["target"]].name
            tgt = [sl for sl in nslots if sl.name == name]
            if tgt:
                odom = Dom.from_json(ctx["odom"])
                _apply_op(kn, tgt[0], odom, args[n], args[n + 1])
                _apply_op(kr, tgt[0], odom, args[n], args[n + 1])
                if ST.snapshot(kn) != ST.snapshot(kr):
                    return False
    return True


def jobs(tier, seed, excluded=()):
    from ..trees import mutate

    rng = random.Random(seed)
    if tier == "quick":
        dom = Dom(int_max=9, int_cands=["-3", "20", "15", "100"], str_mode="cand", str_cands=["", "p", "fast"], hex_cands=["0x1f", "1f", "0x30"], float_cands=["5", "0.25", "3.5"])
        trees = ["T01", "T03", "T05", "T06", "T07", "E_set_src", "E_setdef_src", "E_choice_default", "E_select"]
        budget, nparts, tmo = 40, 1, 100
    else:
        dom = Dom(int_max=100000, int_cands=["-3", "007"], str_mode="cand", str_cands=["", "p", "fast", 'q"'], hex_cands=["0x1f", "1f", "0x30"], float_cands=["5", "0.25", "3.5", "1e3"])
        from ..trees import edges

        trees = ["T01", "T02", "T03", "T04", "T05", "T06", "T07", "T08", "T09", "T10", "T11", "T12", "T15"] + edges.ids()
        budget, nparts, tmo = 80, 3, 200
    odom = Dom(int_max=dom.int_max, str_mode="cand", str_cands=["", "p"], int_cands=["-3"], hex_cands=["0x1f", "zz"], float_cands=["5", "nan"])
    out = []
    for tid in trees:
        slots = ST.layout(tid)
        out += state_jobs("C08", "vk.props.c08", "clause1", [tid], dom, budget * 3, nparts, tmo, rng, tag="c1")
        targets = [i for i, sl in enumerate(slots) if sl.kind != "pick"]
        rng.shuffle(targets)
        for t in targets[: (2 if tier == "quick" else len(targets))]:
            out += state_jobs("C08", "vk.props.c08", "clause1", [tid], dom, budget, 1, tmo, rng, {"target": t, "odom": odom.to_json()}, tag="c1-op-" + slots[t].name, extra_params=[("ok", "int"), ("ov", "int")], extra_pre="0 <= ok <= 3 and " + op_value_bounds(slots[t], odom), extra_samples=lambda r: [r.randint(0, 3), 0], must_free=lambda a, b, t=t: [b[t].name])
    for new, (base, _) in mutate.VERSIONS.items():
        slots = ST.layout(base)
        for policy in ("sdkconfig", "kconfig"):
            out += state_jobs("C08", "vk.props.c08", "clause2", [base], dom, budget * 2, nparts, tmo, rng, {"new": new, "policy": policy}, tag="c2-%s-%s" % (new.split(":")[-1], policy))
            if policy == "kconfig":  # (policy sdkconfig + one operation: the all-defaults jobs below)
                targets = [i for i, sl in enumerate(slots) if sl.kind != "pick"]
                for t in (targets if base.startswith("E_") else [rng.choice(targets)]):
                  out += state_jobs("C08", "vk.props.c08", "clause2", [base], dom, budget // 2 + 5, 1, tmo, rng, {"new": new, "policy": policy, "target": t, "odom": odom.to_json()}, tag="c2-%s-%s-op-%s" % (new.split(":")[-1], policy, slots[t].name), extra_params=[("ok", "int"), ("ov", "int")], extra_pre="0 <= ok <= 3 and " + op_value_bounds(slots[t], odom), extra_samples=lambda r: [r.randint(0, 3), 0], must_free=lambda a, b, t=t: [b[t].name])
    # the all-defaults corner (every entry of the old file is default-marked) with one further operation per option
    for new, (base, _) in mutate.VERSIONS.items():
        slots = ST.layout(base)
        cand = [t for t, sl in enumerate(slots) if sl.kind != "pick"]
        if tier == "quick" and not base.startswith("E_"):
            cand = sorted(rng.sample(cand, min(3, len(cand))))
        for t in cand:
            sl = slots[t]
            fixed = {x.name: None for x in slots if x.name != sl.name}
            sp, spre = ST.params_for(slots, dom, fixed=fixed)
            ctx = {"tree": base, "dom": dom.to_json(), "nstate": len(sp), "fixed": fixed, "new": new, "policy": "sdkconfig", "target": t, "odom": odom.to_json()}
            out.append(Job("C08", "C08-%s-c2-%s-alldef-op-%s" % (base, new.split(":")[-1], sl.name), "vk.props.c08", "clause2", ctx, sp + [("ok", "int"), ("ov", "int")], spre + " and 0 <= ok <= 3 and " + op_value_bounds(sl, odom), timeout=tmo * 2, samples=[[0] * len(sp) + [1, 0]], tree=base))
    return out
