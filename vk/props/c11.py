"""C11 -- a deprecated name behaves exactly like its replacement."""
import random

from ..engine import Job
from .. import state as ST
from ..state import K, Dom
from ..shims import MemFS, install_fs
from .common import state_jobs, decode_state
from .c07 import rename_map

INFO = {
    "bounds": {
        "quick": "rename shapes T13 (two files, duplicates, inversions, lowercase, mapping to an undefined option), T13b: every sdkconfig of up to 2 lines, each line = symbolic (name among old and new names, form '=value' or 'is not set', value from the option's candidates), any order, loaded with replace; compared with the translated file; deprecated block: every user state",
        "thorough": "3 lines, merge mode, more values",
    },
    "outside": ["rename shapes outside T13/T13b and the repository's deprecated fixture", "files longer than the bound"],
    "stubs": ["memfs"],
}
BUDGET = {"quick": 220, "thorough": 800}

VALS = {"bool": ["y", "n"], "int": ["5", "12"], "hex": ["0x10", "0x2a"], "string": ['"s"', '"x y"'], "float": ["1.5", "2.0"]}


def _names(tid):
    """[(name, kind, new_name or None, inverted)] -- new names first, then old names (final mapping)"""
    slots = ST.layout(tid)
    kinds = {sl.name: sl.kind for sl in slots if sl.kind != "pick"}
    out = [(n, k, None, False) for n, k in kinds.items()]
    for old, (new, inv) in rename_map(tid).items():
        out.append((old, kinds.get(new), new, inv))
    return out


def _line(name, form, val):
    if form == 0:
        return "# CONFIG_%s is not set" % name
    return "CONFIG_%s=%s" % (name, val)


def translate(entry, form, vi):
    """-> (line for the file as given, equivalent line using the new name or None if the line has no effect)"""
    name, kind, new, inv = entry
    if new is None:
        v = VALS[kind][vi % 2]
        return _line(name, form, v), _line(name, form, v)
    if kind is None:
        # replacement undefined: the line must simply not raise; it stays an unknown-symbol assignment
        return _line(name, form, "y"), None
    v = VALS[kind][vi % 2]
    given = _line(name, form, v)
    if kind == "bool":
        if form == 0:
            return given, ("CONFIG_%s=y" % new if inv else "# CONFIG_%s is not set" % new)
        if inv:
            v = "n" if v == "y" else "y"
        return given, ("CONFIG_%s=y" % new if v == "y" else "# CONFIG_%s is not set" % new)
    if form == 0:
        return given, "# CONFIG_%s is not set" % new
    return given, "CONFIG_%s=%s" % (new, v)


def alias(ctx, *args):
    tid = ctx["tree"]
    names = _names(tid)
    nl = ctx["nlines"]
    given, trans = [], []
    olds_defined = []
    for j in range(nl):
        ni, form, vi = args[3 * j], args[3 * j + 1], args[3 * j + 2]
        e = names[ni]
        g, t = translate(e, form, vi)
        given.append(g)
        if t is not None:
            trans.append(t)
        if e[2] is not None and e[1] is not None:
            olds_defined.append(e[0])
    fs = MemFS()
    install_fs(fs, K)
    fs.put("/m/given", "\n".join(given) + "\n")
    fs.put("/m/trans", "\n".join(trans) + "\n")
    k1 = ST.build(tid, renames=True)
    k1.load_config("/m/given")
    k2 = ST.build(tid, renames=True)
    k2.load_config("/m/trans")
    if ST.snapshot(k1) != ST.snapshot(k2):
        return False
    if k1._config_contents("") != k2._config_contents(""):
        return False
    for n, _v in k1.missing_syms:
        if n in olds_defined:
            return False
    return True


_LEGACY = {}


def _refers_to_old(tid):
    """names of options whose conditions / default values mention a deprecated name (left-over references)"""
    if tid not in _LEGACY:
        import re
        from ..trees import dsl

        old = set(rename_map(tid))
        acc = set()
        t = ST.get_tree(tid)
        for n, _ in dsl.all_cfgs(t) if t else []:
            texts = [n.prompt_if] + list(n.depends) + [c for _, c in n.defaults] + [v for v, _ in n.defaults]
            for e in texts:
                if e and old & set(re.findall(r"[A-Za-z_][A-Za-z0-9_]*", e)):
                    acc.add(n.name)
        _LEGACY[tid] = acc
    return _LEGACY[tid]


def block(ctx, *args):
    tid, dom, slots, vals = decode_state(ctx, args)
    fs = MemFS()
    install_fs(fs, K)
    k = ST.build(tid, renames=True)
    ST.apply_state(k, slots, vals)
    k.write_config("/m/with", write_deprecated=True)
    k.write_config("/m/without", write_deprecated=False)
    a = ST.build(tid, renames=True)
    a.load_config("/m/with")
    b = ST.build(tid, renames=True)
    b.load_config("/m/without")
    if ST.snapshot(a) != ST.snapshot(b) or a.missing_syms != b.missing_syms:
        return False
    # explicitly requested: the entries evaluate in expressions to the values that were written
    c = ST.build(tid, renames=True)
    c.load_config("/m/with", load_deprecated=True)
    # (an option whose own expressions still refer to a deprecated name legitimately changes when those names get
    #  values -- that is the purpose of loading the block; every other option keeps its value)
    legacy = _refers_to_old(tid)
    if [x for x in ST.values(c) if x[0] not in legacy] != [x for x in ST.values(k) if x[0] not in legacy]:
        return False
    kinds = {sl.name: sl.kind for sl in slots if sl.kind != "pick"}
    for old, (new, inv) in rename_map(tid).items():
        if new not in kinds or not k.syms[new].config_string:
            continue
        v = k.syms[new].str_value
        if kinds[new] == "bool":
            want = (v == "y") != inv
            if (c.eval_string(old) == 2) != want:
                return False
        elif kinds[new] == "string":
            if old not in c.syms or c.syms[old].str_value != v:
                return False
        else:
            if c.eval_string("%s = %s" % (old, new)) != 2:
                return False
    return True


def jobs(tier, seed, excluded=()):
    rng = random.Random(seed)
    out = []
    nl = 2 if tier == "quick" else 3
    for tid in ["T13", "T13b"]:
        names = _names(tid)
        n = len(names)
        # partition on the first line's name to spread over the cores
        # (thorough: three lines, the names of the first two fixed per job; the job cap keeps a seeded selection)
        groups = [(list(range(i, n, 10)), None) for i in range(10)] if tier == "quick" else [([i], i2) for i in range(n) for i2 in range(n)]
        for gi, (g, second) in enumerate(groups):
            if not g:
                continue
            params, pre = [], []
            for j in range(nl):
                params += [("n%d" % j, "int"), ("f%d" % j, "int"), ("v%d" % j, "int")]
                if j == 0 and second is not None:
                    pre.append("n0 in %r and f0 == %d and v0 == %d" % (tuple(g), gi % 2, (gi // 2) % 2))
                elif j == 0:
                    pre.append("n0 in %r and 0 <= f0 <= 1 and 0 <= v0 <= 1" % (tuple(g),))
                elif j == 1 and second is not None:
                    pre.append("n1 == %d and 0 <= f1 <= 1 and 0 <= v1 <= 1" % second)
                else:
                    pre.append("0 <= n%d < %d and 0 <= f%d <= 1 and 0 <= v%d <= 1" % (j, n, j, j))
            smp = [[x for j in range(nl) for x in ((rng.choice(g) if j == 0 else (second if (j == 1 and second is not None) else rng.randrange(n))), (gi % 2 if (j == 0 and second is not None) else rng.randint(0, 1)), ((gi // 2) % 2 if (j == 0 and second is not None) else rng.randint(0, 1)))] for _ in range(3)]
            out.append(Job("C11", "C11-%s-alias-g%d" % (tid, gi), "vk.props.c11", "alias", {"tree": tid, "nlines": nl}, params, " and ".join(pre), timeout=150 if tier == "quick" else 300, samples=smp, tree=tid))
    dom = Dom(int_max=9, int_cands=["-3"], str_mode="cand", str_cands=["", 'q"t', "x y"], hex_cands=["0x1f", "1f"], float_cands=["5"])
    out += state_jobs("C11", "vk.props.c11", "block", ["T13", "T13b"], dom, 50, 2, 120, rng, tag="block")
    return out
