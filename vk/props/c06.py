"""C06 -- every emitted value is well-formed for its type and inside its active range; generators agree and do not raise."""
import math
import random

from .. import state as ST
from ..state import K, Dom
from ..shims import MemFS, install_fs
from .. import outputs as O
from .common import state_jobs, decode_state
from ..trees import dsl

INFO = {
    "bounds": {
        "quick": "trees T03,T04,T06,T11,E_range_bound,E_range_cond,E_hexfloat,E_set_val_int: every user state: ints symbolic 0..2000 plus malformed/negative/huge candidates, hex and float from the full candidate lists (0X.., leading zeros, 1e3, 5 for a float, nan, inf, negative, empty), arriving through set_value and through sdkconfig lines; plus one further symbolic operation on each option with all caches filled",
        "thorough": "same trees + T09,T14,T15 and kconfserver fixture, ints to 10^6",
    },
    "outside": ["configurations in which a range's symbol-valued bounds cross (low > high): no value can satisfy it", "hex/float spellings outside the candidate lists", "the config-server door is exercised in C15's harness", "well-formedness is 'convertible by int(s, base) / float(s)' (the implementation's documented validity notion), not a stricter lexical form"],
    "stubs": ["memfs behind esp_kconfiglib.core / kconfgen.core"],
}
BUDGET = {"quick": 200, "thorough": 800}


def _ranges_from_dsl(tid):
    t = ST.get_tree(tid)
    if t is None:
        return None
    out = {}
    for cfg, ctx in dsl.all_cfgs(t):
        if cfg.ranges:
            out.setdefault(cfg.name, []).extend(cfg.ranges)
    return out


def _num(kind, text):
    if kind == "int":
        return int(text, 10)
    if kind == "hex":
        return int(text, 16)
    return float(text)


def _bound(k, kind, tok):
    """numeric value of a range bound written as `tok` (literal or option name); unparsable -> 0 like the C tools"""
    s = k.syms[tok].str_value if tok in k.syms and k.syms[tok].nodes else tok
    try:
        return _num(kind, s)
    except ValueError:
        return 0


def wellformed(ctx, *args):
    tid, dom, slots, vals = decode_state(ctx, args)
    fs = MemFS()
    install_fs(fs, K, O.G)
    k = ST.build(tid)
    if ctx["door"] == "api":
        ST.apply_state(k, slots, vals)
    else:
        lines = []
        for sl in slots:
            v = vals.get(sl.name)
            if sl.kind == "pick" or v is None:
                continue
            if sl.kind == "bool":
                lines.append("CONFIG_%s=y" % sl.name if v == 2 else "# CONFIG_%s is not set" % sl.name)
            elif sl.kind == "string":
                lines.append('CONFIG_%s="%s"' % (sl.name, K._escape(v)))
            else:
                lines.append("CONFIG_%s=%s" % (sl.name, v))
        fs.put("/m/in", "\n".join(lines) + "\n")
        k.load_config("/m/in")
    if "target" in ctx:
        # a further operation with live caches: the emitted values must still be well-formed and in range
        from .c03 import _apply_op

        ST.snapshot(k)
        n = ctx["nstate"]
        _apply_op(k, slots[ctx["target"]], Dom.from_json(ctx["odom"]), args[n], args[n + 1])
    rngs = _ranges_from_dsl(tid)
    kinds = {sl.name: sl.kind for sl in slots if sl.kind != "pick"}
    num = {}
    empty = []
    for name, kind in kinds.items():
        sym = k.syms[name]
        v = sym.str_value
        if kind == "bool":
            if v not in ("y", "n"):
                return False
            continue
        if kind == "string":
            continue
        if v == "":
            # allowed only when nothing provides a value: no user value in effect and no default applies
            if sym.config_string and any(K.expr_value(c) for _, c in sym.defaults):
                return False
            empty.append(name)
            continue
        try:
            x = _num(kind, v)
        except ValueError:
            return False
        if kind == "hex" and x < 0:
            return False
        if kind == "float" and not math.isfinite(x):
            return False
        num[name] = x
        # active range: the first one whose condition holds
        if rngs is not None:
            for lo, hi, cond in rngs.get(name, []):
                if cond is None or k.eval_string(cond):
                    lo_v, hi_v = _bound(k, kind, lo), _bound(k, kind, hi)
                    # a range whose (symbol-valued) bounds cross is unsatisfiable: outside the claim
                    if lo_v <= hi_v and not (lo_v <= x <= hi_v):
                        return False
                    break
        else:
            for lo, hi, cond in sym.ranges:
                if K.expr_value(cond):
                    lo_v, hi_v = _bound(k, kind, lo.name), _bound(k, kind, hi.name)
                    if lo_v <= hi_v and not (lo_v <= x <= hi_v):
                        return False
                    break
    # generators: no exception, same number, hex with 0x prefix
    outs = O.produce(k, fs)
    hdr = O.read_header(outs["header"])
    cm, _ = O.read_cmake(outs["cmake"])
    js = outs["json"]
    for name in empty:
        # "empty when nothing provides a value": every generator shows it empty (no stray prefix, no exception)
        if not k.syms[name].config_string:
            continue
        if hdr.get(name, "") != "" or cm.get(name, "") != "" or js.get(name) is not None:
            return False
    for name, x in num.items():
        kind = kinds[name]
        if not k.syms[name].config_string:
            continue
        if name not in hdr or name not in cm or name not in js:
            return False
        if _num(kind, hdr[name]) != x or _num(kind, cm[name]) != x or js[name] != x:
            return False
        if kind == "hex" and not (hdr[name].startswith(("0x", "0X")) and cm[name].startswith(("0x", "0X"))):
            return False
        if kind in ("int", "hex") and type(js[name]) is not int:
            return False
        if kind == "float" and type(js[name]) is not float:
            return False
    return True


def jobs(tier, seed, excluded=()):
    rng = random.Random(seed)
    if tier == "quick":
        dom = Dom(int_max=2000, str_mode="cand", str_cands=["p"])
        trees = ["T03", "T04", "T06", "T11", "E_range_bound", "E_range_bound_dep", "E_setdef_range", "E_range_cond", "E_hexfloat", "E_set_val_int", "E_sync_empty"]
        budget, nparts, tmo = 150, 2, 100
    else:
        dom = Dom(int_max=1000000, str_mode="cand", str_cands=["p", ""])
        trees = ["T03", "T04", "T06", "T09", "T11", "T14", "T15", "E_range_bound", "E_range_bound_dep", "E_setdef_range", "E_range_cond", "E_hexfloat", "E_set_val_int", "E_default_val", "E_sync_empty", "F:kconfserver/Kconfig"]
        budget, nparts, tmo = 250, 4, 200
    out = []
    for door in ("api", "file"):
        out += state_jobs("C06", "vk.props.c06", "wellformed", trees, dom, budget, nparts, tmo, rng, {"door": door}, tag=door, fix_first="bools")
    # histories: one more operation on every option, with all caches filled before it
    from .common import op_value_bounds

    odom = Dom(int_max=dom.int_max, str_mode="cand", str_cands=["p", ""], int_cands=["-3", "abc", "18446744073709551616"], hex_cands=["0x1f", "1f", "zz", "0xfffff", "0x2"], float_cands=["5", "0.25", "nan", "9.6", "1e3"])
    for tid in trees:
        slots = ST.layout(tid)
        for t, sl in enumerate(slots):
            if sl.kind == "pick":
                continue
            out += state_jobs("C06", "vk.props.c06", "wellformed", [tid], dom, budget // 4, 1, tmo, rng, {"door": "api", "target": t, "odom": odom.to_json()}, tag="op-" + sl.name, extra_params=[("ok", "int"), ("ov", "int")], extra_pre="0 <= ok <= 3 and " + op_value_bounds(sl, odom), extra_samples=lambda r: [r.randint(0, 3), 0], must_free=lambda a, b, t=t: [b[t].name], fix_first="bools")
    return out
