"""C17 -- the menuconfig model stays consistent under any sequence of user actions."""
import random

from ..engine import Job
from .. import state as ST
from ..state import K, Dom
from ..shims import MemFS, install_fs
from .. import ui
from .common import state_jobs, decode_state
from .c15 import pick

INFO = {
    "bounds": {
        "quick": "trees T15, T09, T08, T06 and menuconfig pilot fixtures: session started on the sdkconfig of a (sampled) user state; every sequence of 2 UI actions (first action fixed per job, 9 kinds: move to row i, Enter, Space, leave, y/n key, reset option / menu, show-all, jump-to any node, load other file) with typed texts from a candidate list per type (in/out of range, malformed, hex without prefix, float with comma)",
        "thorough": "2 actions, more trees / fixtures and start states",
    },
    "outside": ["Textual widgets and screens (replaced by a stand-in that calls the real handler methods)", "typed texts outside the candidate lists", "longer sequences"],
    "stubs": ["stand-in for MenuConfigApp's self (vk/ui.py): dialogs answered immediately, refresh / notify are no-ops", "memfs"],
}
BUDGET = {"quick": 240, "thorough": 800}

TEXTS = {
    K.INT: ["5", "0", "9", "77", "-3", "abc", "", " 7", "007", "+5"],
    K.HEX: ["1f", "0x2", "zz", "0X10", "-1", "", "+5", " 2a", "0x9"],
    K.FLOAT: ["2.5", "5", "1,5", "nan", "1e1", ""],
    K.STRING: ["", "p", 'q"t', " sp "],
}


def _numeq(sym, text):
    v = sym.str_value
    try:
        if sym.orig_type == K.INT:
            return int(v) == int(text)
        if sym.orig_type == K.HEX:
            return int(v, 16) == int(text, 16)
        if sym.orig_type == K.FLOAT:
            return float(v) == float(text)
    except ValueError:
        return False
    return v == text


def seq(ctx, *args):
    tid, dom, slots, vals = decode_state(ctx, args)
    n = ctx["nstate"]
    fs = MemFS()
    fs.dirs.add("/m/proj")
    install_fs(fs, K)
    k0 = ST.build(tid)
    ST.apply_state(k0, slots, vals)
    k0.write_config("/m/proj/sdkconfig")
    k0.write_config("/m/proj/other")
    k = ST.build(tid)
    st, app = ui.start(k, fs)
    nodes = list(k.node_iter())
    rest = args[n:]
    for j in range(ctx["nact"]):
        a, x, ti = rest[3 * j : 3 * j + 3]
        if ctx["first"] is not None and j == 0:
            a = ctx["first"]
        # observations before the action
        node = st.selected_node if st.shown else None
        sc = node.item if node is not None else None
        targeted = a in (1, 2, 4) and isinstance(sc, K.Symbol)
        if targeted:
            old = sc.str_value
            assignable = tuple(sc.assignable)
            visible = bool(node.prompt and K.expr_value(node.prompt[1]))
            locked = (sc.orig_type != K.BOOL and sc._has_active_indirect_set) or (sc.orig_type == K.BOOL and sc.choice is None and len(assignable) <= 1)
        ui.act(app, a, x, (lambda sym, ti=ti: pick(TEXTS[sym.orig_type], ti)), nodes)
        if not ui.invariant(st, nodes):
            return False
        if targeted:
            new = sc.str_value
            if new != old:
                if locked or not visible:
                    return False
                if sc.orig_type == K.BOOL and K.STR_TO_BOOL[new] not in assignable and sc.choice is None:
                    return False
            if app.last_input is not None:
                sym, text, ok = app.last_input
                if ok:
                    t = text.strip() if sym.orig_type != K.STRING else text
                    if not _numeq(sym, t):
                        return False
                elif sym.str_value != old:
                    return False  # a rejected text must not be applied
    return True


def jobs(tier, seed, excluded=()):
    rng = random.Random(seed)
    dom = Dom(int_max=-1, int_cands=["7", "3"], str_mode="cand", str_cands=["p"], hex_cands=["0x1f"], float_cands=["0.25"])
    if tier == "quick":
        trees, nact, tmo, budget = ["T15", "T09", "T08", "T06", "E_range_cond", "E_range_bound_dep", "F:menuconfig/kconfigs/Kconfig.pilot_all_scalars"], 2, 150, 2
    else:
        trees, nact, tmo, budget = ["T15", "T09", "T08", "T06", "T07", "T03", "T04", "E_range_cond", "E_range_bound_dep"] + ["F:menuconfig/kconfigs/Kconfig." + x for x in ("pilot_all_scalars", "pilot_choice", "pilot_submenu", "indirect_sets", "float", "warning")], 2, 300, 3
    out = []
    for tid in trees:
        nn = len(list(ST.build(tid).node_iter()))
        ep, epre = [], []
        for j in range(nact):
            ep += [("a%d" % j, "int"), ("x%d" % j, "int"), ("y%d" % j, "int")]
            epre.append("0 <= a%d <= 8 and 0 <= x%d < %d and 0 <= y%d <= 9" % (j, j, max(8, nn), j))
        for first in range(9):
            # fix the highlighted row of a "move" first action per job to spread the work
            out += state_jobs("C17", "vk.props.c17", "seq", [tid], dom, budget, 1, tmo, rng, {"nact": nact, "first": first}, tag="a%d" % first, extra_params=ep, extra_pre=" and ".join(epre) + " and a0 == %d" % first, extra_samples=lambda r, first=first: [x for j in range(nact) for x in ((first if j == 0 else r.randint(0, 8)), r.randint(0, 7), r.randint(0, 8))])
    return out
