"""C13 -- outputs are rewritten only when they change, and a save never loses both copies."""
import random
import shutil as _shutil

from ..engine import Job
from .. import state as ST
from ..state import K, Dom
from ..shims import MemFS, install_fs, Crash
from .. import outputs as O
from .common import state_jobs, decode_state, op_value_bounds
from .c03 import _apply_op

G = O.G

INFO = {
    "bounds": {
        "quick": "part 1: trees T01,T05,T07,T13b: every user state (sampled partitions) -> all core writers (write_config, write_autoconf, write_min_config, sync_deps) and the real kconfgen main() for formats config/header/cmake/json/json_menus/savedefconfig run twice: no mutating operation on any destination the second time; then one symbolic operation: exactly the destinations whose text changes are rewritten. part 2: a save over a complete previous file (regular file or symlink) through each user-facing route -- Kconfig.write_config(save_old=True), kconfgen.core.write_config (= kconfserver `save`), MenuConfigApp._do_save -- with a symbolic crash point (before any mutating operation or inside a write after p characters)",
        "thorough": "more trees and partitions",
    },
    "outside": ["crash = process death between Python-level file operations or inside a write(); no fsync semantics", "kconfgen formats docs / report / cdep_tree (cdep_tree = sync_deps, see C12)"],
    "stubs": ["memfs behind esp_kconfiglib.core and kconfgen.core (open, os, os.path, tempfile.NamedTemporaryFile, shutil.copyfile)", "kconfgen.install_exception_reporting replaced by a no-op"],
}
BUDGET = {"quick": 240, "thorough": 800}

FORMATS = ["config", "header", "cmake", "json", "json_menus", "savedefconfig"]


class _Tmp:
    def __init__(self, fs):
        self.fs = fs
        self.n = 0

    def NamedTemporaryFile(self, prefix="tmp", mode="w+", delete=False, encoding=None, **kw):
        self.n += 1
        path = "/m/tmp/%s%d" % (prefix, self.n)
        self.fs.dirs.add("/m/tmp")
        f = self.fs.open(path, "w")
        return f


def _install(fs):
    install_fs(fs, K, G)
    G.tempfile = _Tmp(fs)
    G.install_exception_reporting = lambda: None
    real = _shutil.copyfile.__dict__.get("_real", _shutil.copyfile)

    def copyfile(a, b, **k):
        if fs.ismem(a) or fs.ismem(b):
            return fs.copyfile(a, b, follow_symlinks=k.get("follow_symlinks", True))
        return real(a, b, **k)

    copyfile._real = real
    _shutil.copyfile = copyfile


def _dest_mutations(fs, since, dests):
    return [j for j in fs.journal[since:] if (j[1] in dests) or (isinstance(j[1], tuple) and (j[1][0] in dests or j[1][1] in dests))]


def _run_main(tid, ren):
    G.main.callback(
        sdkconfig_file="/m/proj/sdkconfig",
        defaults=(),
        kconfig=ST.tree_file(tid),
        sdkconfig_rename=(ST.rename_files(tid)[0] if ren and ST.rename_files(tid) else None),
        dont_write_deprecated=False,
        menuconfig=False,
        output=[(f, "/m/out/" + f) for f in FORMATS],
        env=(),
        env_file=None,
        list_separator="space",
    )


def unchanged(ctx, *args):
    tid, dom, slots, vals = decode_state(ctx, args)
    ren = ctx.get("renames", False)
    fs = MemFS()
    _install(fs)
    fs.dirs.update({"/m/proj", "/m/out", "/m/core"})
    k = ST.build(tid, renames=ren)
    ST.apply_state(k, slots, vals)

    def core_writers():
        k.write_config("/m/core/sdkconfig", write_deprecated=ren)
        k.write_autoconf("/m/core/sdkconfig.h", write_deprecated=ren)
        k.write_min_config("/m/core/min", labels=False)
        k.write_min_config("/m/core/minl", labels=True, normalize_unset=True)
        k.sync_deps("/m/core/deps")

    core_dests = {"/m/core/sdkconfig", "/m/core/sdkconfig.h", "/m/core/min", "/m/core/minl", "/m/core/deps/auto.conf"}
    core_writers()
    j0 = len(fs.journal)
    mt = dict(fs.mtime)
    core_writers()
    if fs.journal[j0:]:
        return False  # nothing at all may happen the second time (no writes, no touches)
    if fs.mtime != mt:
        return False
    # kconfgen
    k.write_config("/m/proj/sdkconfig")
    gen_dests = {"/m/out/" + f for f in FORMATS} | {"/m/proj/sdkconfig"}
    _run_main(tid, ren)
    before = {d: fs.read(d) for d in gen_dests}
    if any(v is None for v in before.values()):
        return False
    j1 = len(fs.journal)
    _run_main(tid, ren)
    if _dest_mutations(fs, j1, gen_dests):
        return False
    # one symbolic operation, then regenerate: exactly the destinations whose text changes are rewritten
    n = ctx["nstate"]
    if "target" in ctx:
        odom = Dom.from_json(ctx["odom"])
        _apply_op(k, slots[ctx["target"]], odom, args[n], args[n + 1])
        k.write_config("/m/proj/sdkconfig")
        j2 = len(fs.journal)
        _run_main(tid, ren)
        muts = _dest_mutations(fs, j2, gen_dests)
        written = {j[1] for j in muts if j[0] in ("open-w", "write")}
        for d in gen_dests - {"/m/proj/sdkconfig"}:
            if (fs.read(d) != before[d]) != (d in written):
                return False
    return True


def _save_route(via):
    """the three ways a user saves a configuration over an existing sdkconfig"""
    if via == "gen":  # kconfserver's `save` request and kconfgen's `config` output go through this wrapper
        return lambda k, dest: G.write_config(k, dest)
    if via == "app":  # the menuconfig application's save
        import types
        from esp_menuconfig.app import MenuConfigApp

        def go(k, dest):
            me = types.SimpleNamespace(state=types.SimpleNamespace(kconf=k, saved=False), notify=lambda *a, **kw: None)
            MenuConfigApp._do_save(me, dest)

        return go
    return lambda k, dest: k.write_config(dest, save_old=True)


def crashsave(ctx, *args):
    tid, dom, slots, vals = decode_state(ctx, args)
    n = ctx["nstate"]
    ok, ov, crash, short = args[n : n + 4]
    fs = MemFS()
    _install(fs)
    fs.dirs.add("/m/proj")
    fs.dirs.add("/m/scratch")
    k = ST.build(tid)
    ST.apply_state(k, slots, vals)
    save = _save_route(ctx.get("via", "core"))
    save(k, "/m/scratch/p")
    P = fs.read("/m/scratch/p")
    dest = "/m/proj/sdkconfig"
    if ctx["symlink"]:
        fs.dirs.add("/m/real")
        fs.put("/m/real/sdkconfig", P)
        fs.links[dest] = "/m/real/sdkconfig"
    else:
        fs.put(dest, P)
    odom = Dom.from_json(ctx["odom"])
    _apply_op(k, slots[ctx["target"]], odom, ok, ov)
    save(k, "/m/scratch/q")
    Q = fs.read("/m/scratch/q")
    fs.arm(None if crash < 0 else crash, (0, 1, 9)[short])
    try:
        save(k, dest)
    except Crash:
        cur = fs.read(dest)
        old = fs.read(dest + ".old")
        return cur == Q or cur == P or old == P
    fs.disarm()
    if fs.read(dest) != Q:
        return False
    if Q != P and fs.read(dest + ".old") != P:
        return False
    if ctx["symlink"] and fs.links.get(dest) != "/m/real/sdkconfig":
        return False  # the symlink must be preserved
    return True


def jobs(tier, seed, excluded=()):
    rng = random.Random(seed)
    dom = Dom(int_max=9, int_cands=["-3"], str_mode="cand", str_cands=["", "p", 'q"t', "Gr\u00f6\u00dfe"], hex_cands=["0x1f", "1f"], float_cands=["5", "0.25"])
    odom = Dom(int_max=9, int_cands=["-3"], str_mode="cand", str_cands=["p", "zz"], hex_cands=["0x1f", "0x2"], float_cands=["0.25", "5"])
    if tier == "quick":
        trees, budget, nt, tmo = [("T01", False), ("T05", False), ("T07", False), ("T13b", True)], 9, 2, 150
    else:
        trees, budget, nt, tmo = [("T01", False), ("T03", False), ("T04", False), ("T05", False), ("T06", False), ("T07", False), ("T09", False), ("T13b", True), ("T13", True)], 40, 4, 500
    out = []
    for tid, ren in trees:
        slots = ST.layout(tid)
        targets = [i for i, sl in enumerate(slots) if sl.kind != "pick"]
        rng.shuffle(targets)
        for t in targets[:nt]:
            out += state_jobs("C13", "vk.props.c13", "unchanged", [tid], dom, budget, 1, tmo, rng, {"target": t, "odom": odom.to_json(), "renames": ren}, tag="regen-" + slots[t].name, extra_params=[("ok", "int"), ("ov", "int")], extra_pre="0 <= ok <= 2 and " + op_value_bounds(slots[t], odom), extra_samples=lambda r: [r.randint(0, 2), 0], must_free=lambda a, b, t=t: [b[t].name])
        for t in targets[:nt]:
            for sym, via in ((False, "core"), (True, "core"), (False, "gen"), (True, "gen"), (False, "app")):
                out += state_jobs("C13", "vk.props.c13", "crashsave", [tid], dom, budget, 1, tmo, rng, {"target": t, "odom": odom.to_json(), "symlink": sym, "via": via}, tag="save-%s-%s-%s" % (via, "link" if sym else "file", slots[t].name), extra_params=[("ok", "int"), ("ov", "int"), ("crash", "int"), ("short", "int")], extra_pre="0 <= ok <= 2 and %s and -1 <= crash <= 6 and 0 <= short <= 2" % op_value_bounds(slots[t], odom), extra_samples=lambda r: [r.randint(0, 2), 0, r.randint(-1, 5), r.randint(0, 2)], must_free=lambda a, b, t=t: [b[t].name])
    return out
