"""Stubs shared by all harnesses.  Every stub here is part of each claim (listed in the evidence).

* LogModel   -- stands in for esp_pylib.logger.log inside the repo's modules
* MemFS      -- in-memory file system with operation journal, logical clock and crash injection
* notrace()  -- CrossHair NoTracing when tracing, no-op otherwise (so that harness bodies also run natively)
"""
import builtins
import contextlib
import os as _os
import posixpath
import sys

try:  # the replay interpreter may run without CrossHair being importable
    from crosshair.tracers import NoTracing, is_tracing
except Exception:  # pragma: no cover
    NoTracing = None

    def is_tracing():
        return False


def notrace():
    if NoTracing is not None and is_tracing():
        return NoTracing()
    return contextlib.nullcontext()


# ------------------------------------------------------------------------------------------- log


class LogModel:
    """Stands in for esp_pylib.logger.log inside the repo's modules.  Records (method, destination) per call following
    esp_pylib.logger's contract: print -> stdout unless file= is given; err / warn / die -> stderr; note / hint ->
    the *info stream*, which is stdout unless the package called log.set_info_stream() (read from the real logger
    object, so dropping that call is visible); die -> SystemExit.
    Messages are not written anywhere, but concrete message parts are passed through rich's markup parser when markup
    is enabled (as the real console does), so a message that would raise rich.errors.MarkupError still does."""

    def __init__(self):
        self.calls = []

    def _rec(self, meth, dest):
        self.calls.append((meth, dest))

    @staticmethod
    def _info_dest():
        try:
            import esp_pylib.logger as _L

            st = getattr(_L.log, "_info_stream", None)
            return "stdout" if (st is None or st is sys.__stdout__ or st is sys.stdout) else "stderr"
        except Exception:
            return "stderr"

    @staticmethod
    def _markup(args, kw):
        if kw.get("markup", True) is False:
            return
        for a in args:
            with notrace():
                # (the type test has to happen outside tracing: under tracing type() of a symbolic str is str)
                concrete = type(a) is str and "[" in a
                if concrete:
                    from rich.markup import render

                    render(a)  # raises rich.errors.MarkupError like the real console would

    def print(self, *a, file=None, **k):
        self._markup(a, k)
        self._rec("print", "stdout" if file is None or file is sys.stdout or file is sys.__stdout__ else "file")

    def err(self, *a, **k):
        self._markup(a, k)
        self._rec("err", "stderr")

    def warn(self, *a, **k):
        self._markup(a, k)
        self._rec("warn", "stderr")

    def note(self, *a, **k):
        self._markup(a, k)
        self._rec("note", self._info_dest())

    def hint(self, *a, **k):
        self._markup(a, k)
        self._rec("hint", self._info_dest())

    def info(self, *a, **k):
        self._rec("info", self._info_dest())

    def debug(self, *a, **k):
        self._rec("debug", "stderr")

    def die(self, *a, **k):
        self._markup(a, k)
        self._rec("die", "stderr")
        raise SystemExit(2)

    def set_info_stream(self, stream):
        import esp_pylib.logger as _L

        _L.log.set_info_stream(stream)

    def __getattr__(self, name):
        if name.startswith("__"):
            raise AttributeError(name)

        def f(*a, **k):
            self._rec(name, "stderr")

        return f


LOG = LogModel()


def install_log(*modules):
    for m in modules:
        if hasattr(m, "log"):
            m.log = LOG


# ----------------------------------------------------------------------------------------- memfs


class Crash(BaseException):
    """Process death injected by MemFS (BaseException so that no `except Exception` swallows it)."""


ROOT = "/m"


class MemFS:
    """In-memory FS for paths under /m.  Text files only (the repo writes text).

    Models: truncation at open(.., 'w'); universal newlines on text read ('\\r\\n' and '\\r' -> '\\n'),
    no translation on write (posix); logical clock for mtimes; journal of mutating operations; crash
    injection before mutating operation number `crash_at` (0-based), or inside that operation if it is a
    write(): then only the first `short` characters reach the file.  Symlinks: `links[path] = target`.
    """

    def __init__(self):
        self.files = {}  # real path -> str
        self.links = {}  # path -> target path
        self.dirs = {ROOT, ROOT + "/cwd"}
        self.mtime = {}
        self.clock = 0
        self.ops = 0
        self.crash_at = None
        self.short = 0
        self.journal = []
        self.unwritable = set()  # paths for which open(w) raises OSError
        self.crashed = False

    # -- helpers
    @staticmethod
    def ab(p):
        """relative names are files in the in-memory working directory /m/cwd (nothing may reach the real cwd)"""
        if isinstance(p, str) and p != "" and not p.startswith("/"):
            return ROOT + "/cwd/" + p
        return p

    def ismem(self, p):
        p = self.ab(p)
        return isinstance(p, str) and (p == ROOT or p.startswith(ROOT + "/"))

    def _res(self, p):
        n = 0
        while p in self.links and n < 8:
            p = self.links[p]
            n += 1
        return p

    def _mut(self, what, path):
        if self.crash_at is not None and self.ops == self.crash_at:
            self.journal.append(("CRASH-BEFORE", what, path))
            self.crashed = True
            raise Crash()
        self.ops += 1
        self.clock += 1
        self.journal.append((what, path))

    def arm(self, crash_at, short=0):
        self.ops = 0
        self.crash_at = crash_at
        self.short = short
        self.crashed = False

    def disarm(self):
        self.crash_at = None

    def mutations(self, since=0):
        return [j for j in self.journal[since:]]

    # -- file API
    def open(self, path, mode="r", *a, **kw):
        if isinstance(path, str) and "\0" in path:
            raise ValueError("embedded null byte")
        path = self.ab(path)
        if not self.ismem(path):
            return builtins.open(path, mode, *a, **kw)
        rp = self._res(path)
        if "r" in mode and "+" not in mode:
            if rp not in self.files:
                raise FileNotFoundError(2, "No such file or directory", path)
            return _R(_univ(self.files[rp]) if "b" not in mode else self.files[rp])
        if rp in self.unwritable or posixpath.dirname(rp) not in self.dirs:
            raise OSError(13, "Permission denied", path)
        if "a" in mode:
            self._mut("open-a", rp)
            self.files.setdefault(rp, "")
        else:
            self._mut("open-w", rp)
            self.files[rp] = ""
        self.mtime[rp] = self.clock
        return _W(self, rp)

    def exists(self, p):
        p = self.ab(p)
        if not self.ismem(p):
            return _os.path.exists(p)
        rp = self._res(p)
        return rp in self.files or rp in self.dirs

    def lexists(self, p):
        p = self.ab(p)
        if not self.ismem(p):
            return _os.path.lexists(p)
        return p in self.links or p in self.files or p in self.dirs

    def isfile(self, p):
        p = self.ab(p)
        if not self.ismem(p):
            return _os.path.isfile(p)
        return self._res(p) in self.files

    def isdir(self, p):
        p = self.ab(p)
        if not self.ismem(p):
            return _os.path.isdir(p)
        return self._res(p) in self.dirs

    def islink(self, p):
        p = self.ab(p)
        if not self.ismem(p):
            return _os.path.islink(p)
        return p in self.links

    def mkdir(self, p, mode=0o777):
        p = self.ab(p)
        if p in self.dirs or p in self.files:
            raise FileExistsError(17, "File exists", p)
        self._mut("mkdir", p)
        self.dirs.add(p)

    def makedirs(self, p, mode=0o777, exist_ok=False):
        p = self.ab(p)
        if p in self.dirs:
            if exist_ok:
                return
            raise FileExistsError(17, "File exists", p)
        todo = []
        q = p
        while q not in self.dirs and q not in ("/", ""):
            todo.append(q)
            q = posixpath.dirname(q)
        for d in reversed(todo):
            self._mut("mkdir", d)
            self.dirs.add(d)

    def creat(self, p):
        """os.open(p, O_WRONLY|O_CREAT|O_TRUNC) + close: the cdep touch"""
        rp = self._res(self.ab(p))
        self._mut("creat", rp)
        self.files[rp] = ""
        self.mtime[rp] = self.clock

    def replace(self, src, dst):
        src, dst = self.ab(src), self.ab(dst)
        self._mut("replace", (src, dst))
        if src in self.links:
            self.links[dst] = self.links.pop(src)
            self.files.pop(dst, None)
        else:
            if src not in self.files:
                raise FileNotFoundError(2, "No such file or directory", src)
            self.links.pop(dst, None)
            self.files[dst] = self.files.pop(src)
            self.mtime[dst] = self.mtime.pop(src, self.clock)

    rename = replace

    def remove(self, p):
        p = self.ab(p)
        if p in self.links:
            self._mut("remove", p)
            del self.links[p]
            return
        if p not in self.files:
            raise FileNotFoundError(2, "No such file or directory", p)
        self._mut("remove", p)
        del self.files[p]
        self.mtime.pop(p, None)

    def copyfile(self, src, dst, follow_symlinks=True):
        src, dst = self.ab(src), self.ab(dst)
        if not follow_symlinks and src in self.links:
            # shutil semantics: the link itself is re-created, not its content
            if dst in self.links or dst in self.files:
                raise FileExistsError(17, "File exists", dst)
            self._mut("symlink", dst)
            self.links[dst] = self.links[src]
            return dst
        rs = self._res(src)
        if rs not in self.files:
            raise FileNotFoundError(2, "No such file or directory", src)
        data = self.files[rs]
        with self.open(dst, "w") as f:
            f.write(data)
        return dst

    def read(self, p):
        p = self.ab(p)
        return self.files.get(self._res(p))

    def put(self, p, text):
        """harness-side creation of a file (not journalled)"""
        d = posixpath.dirname(p)
        while d not in self.dirs and d not in ("/", ""):
            self.dirs.add(d)
            d = posixpath.dirname(d)
        self.clock += 1
        self.files[p] = text
        self.mtime[p] = self.clock

    def walk(self, top):
        """os.walk(top, topdown=True): the caller may prune the yielded directory list in place"""
        top = top.rstrip("/") or "/"
        dirs = sorted(d for d in self.dirs if posixpath.dirname(d) == top and d != top)
        files = sorted(f for f in list(self.files) + list(self.links) if posixpath.dirname(f) == top)
        names = [posixpath.basename(d) for d in dirs]
        yield top, names, [posixpath.basename(f) for f in files]
        for name in list(names):
            yield from self.walk(posixpath.join(top, name))

    def listdir(self, top):
        for _, ds, fs in self.walk(top):
            return ds + fs
        return []


def _univ(t):
    if "\r" not in t:
        return t
    return t.replace("\r\n", "\n").replace("\r", "\n")


def _lines(t):
    out = []
    cur = 0
    while True:
        i = t.find("\n", cur)
        if i < 0:
            if cur < len(t):
                out.append(t[cur:])
            return out
        out.append(t[cur : i + 1])
        cur = i + 1


class _R:
    def __init__(self, text):
        self.text = text
        self.pos = 0
        self._it = None

    def __enter__(self):
        return self

    def __exit__(self, *a):
        return False

    def __iter__(self):
        return iter(_lines(self.text[self.pos :]))

    def read(self, n=-1):
        if n is None or n < 0:
            r = self.text[self.pos :]
            self.pos = len(self.text)
        else:
            r = self.text[self.pos : self.pos + n]
            self.pos += len(r)
        return r

    def readline(self):
        i = self.text.find("\n", self.pos)
        if i < 0:
            r = self.text[self.pos :]
            self.pos = len(self.text)
        else:
            r = self.text[self.pos : i + 1]
            self.pos = i + 1
        return r

    def readlines(self):
        return _lines(self.read())

    def close(self):
        pass


class _W:
    def __init__(self, fs, path):
        self.fs = fs
        self.path = path
        self.name = path

    def __enter__(self):
        return self

    def __exit__(self, *a):
        return False

    def write(self, data):
        fs = self.fs
        if fs.crash_at is not None and fs.ops == fs.crash_at:
            n = fs.short
            if n > 0:
                fs.files[self.path] = fs.files.get(self.path, "") + data[:n]
            fs.journal.append(("CRASH-IN-WRITE", self.path, n))
            fs.crashed = True
            raise Crash()
        fs.ops += 1
        fs.clock += 1
        with notrace():
            if type(data) is str:
                data.encode("utf-8")  # (text files of the repo are UTF-8: a lone surrogate raises UnicodeEncodeError)
        fs.files[self.path] = fs.files.get(self.path, "") + data
        fs.mtime[self.path] = fs.clock
        fs.journal.append(("write", self.path))
        return len(data)

    def writelines(self, ls):
        for x in ls:
            self.write(x)

    def flush(self):
        pass

    def close(self):
        pass


class _PathShim:
    def __init__(self, fs):
        self._fs = fs

    def __getattr__(self, name):
        return getattr(_os.path, name)

    def exists(self, p):
        return self._fs.exists(p)

    def lexists(self, p):
        return self._fs.lexists(p)

    def isfile(self, p):
        return self._fs.isfile(p)

    def isdir(self, p):
        return self._fs.isdir(p)

    def islink(self, p):
        return self._fs.islink(p)

    def realpath(self, p, **k):
        if self._fs.ismem(p):
            return self._fs._res(self._fs.ab(p))
        return _os.path.realpath(p, **k)

    def abspath(self, p):
        if self._fs.ismem(p):
            return posixpath.normpath(self._fs.ab(p))
        return _os.path.abspath(p)

    def getmtime(self, p):
        if self._fs.ismem(p):
            return self._fs.mtime[self._fs._res(self._fs.ab(p))]
        return _os.path.getmtime(p)

    def getsize(self, p):
        if self._fs.ismem(p):
            rp = self._fs._res(self._fs.ab(p))
            if rp not in self._fs.files:
                raise FileNotFoundError(2, "No such file or directory", p)
            return len(self._fs.files[rp].encode("utf-8"))  # size in bytes, not characters
        return _os.path.getsize(p)


class OsShim:
    """Stands in for the `os` module inside a repo module."""

    def __init__(self, fs):
        self._fs = fs
        self.path = _PathShim(fs)

    def __getattr__(self, name):
        return getattr(_os, name)

    def mkdir(self, p, mode=0o777):
        if self._fs.ismem(p):
            return self._fs.mkdir(p, mode)
        return _os.mkdir(p, mode)

    def makedirs(self, p, mode=0o777, exist_ok=False):
        if self._fs.ismem(p):
            return self._fs.makedirs(p, mode, exist_ok)
        return _os.makedirs(p, mode, exist_ok)

    def open(self, p, flags, mode=0o777):
        if self._fs.ismem(p):
            self._fs.creat(p)
            return -42
        return _os.open(p, flags, mode)

    def close(self, fd):
        if fd == -42:
            return None
        return _os.close(fd)

    def replace(self, a, b):
        if self._fs.ismem(a) or self._fs.ismem(b):
            return self._fs.replace(a, b)
        return _os.replace(a, b)

    def rename(self, a, b):
        if self._fs.ismem(a) or self._fs.ismem(b):
            return self._fs.replace(a, b)
        return _os.rename(a, b)

    def remove(self, p):
        if self._fs.ismem(p):
            return self._fs.remove(p)
        return _os.remove(p)

    unlink = remove

    def walk(self, top, **k):
        if self._fs.ismem(top):
            return self._fs.walk(top)
        return _os.walk(top, **k)

    def listdir(self, p="."):
        if self._fs.ismem(p):
            return self._fs.listdir(p)
        return _os.listdir(p)


class ShutilShim:
    def __init__(self, fs):
        import shutil

        self._fs = fs
        self._sh = shutil

    def __getattr__(self, name):
        return getattr(self._sh, name)

    def copyfile(self, a, b, **k):
        if self._fs.ismem(a) or self._fs.ismem(b):
            return self._fs.copyfile(a, b, follow_symlinks=k.get("follow_symlinks", True))
        return self._sh.copyfile(a, b, **k)

    copy = copyfile
    copy2 = copyfile


def install_fs(fs, *modules):
    """Points the module-level names a repo module uses for file access at `fs`."""
    sh = OsShim(fs)
    for m in modules:
        d = m.__dict__
        m.open = fs.open
        if "os" in d:
            m.os = sh
        if "exists" in d:
            m.exists = fs.exists
        if "islink" in d:
            m.islink = fs.islink
        if "isfile" in d:
            m.isfile = fs.isfile
        if "isdir" in d:
            m.isdir = fs.isdir
        if "shutil" in d:
            m.shutil = ShutilShim(fs)
    return fs
