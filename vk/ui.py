"""UI-level actions on the real esp_menuconfig model, issued through the real MenuConfigApp handler methods called on
a stand-in `self` (no Textual widgets): the glue code in app.py runs, only screens / widgets are replaced.

Stand-in behaviour (part of the claim): dialogs are answered immediately (confirmations with "y"; the input dialog with
the text supplied by the harness, applied only if the real validator accepts it, like InputScreen does);
_refresh_menu / notify / _sync_sel_node_i do nothing (the highlighted row is state.sel_node_i).
"""
import os

from .state import K
from .shims import install_fs, install_log

import esp_menuconfig.model as MM
import esp_menuconfig.app as MA
import esp_menuconfig.formatting as MF
import esp_menuconfig as MI

install_log(MM, MA, MI)

App = MA.MenuConfigApp
ChangeResult = MM.ChangeResult


class _Ev:
    def __init__(self, node=None, bool_val=None):
        self.node = node
        self.bool_val = bool_val


class FakeApp:
    def __init__(self, state):
        self.state = state
        self.text = None  # text typed into the next input dialog
        self.last_input = None  # (sym, text, accepted)
        self.notes = []

    # --- replaced UI pieces
    def _refresh_menu(self):
        pass

    def _refresh_help(self, node=None):
        pass

    def _sync_sel_node_i(self):
        pass

    def notify(self, msg, **kw):
        self.notes.append(msg)

    def _show_input_dialog(self, node):
        sym = node.item
        if not isinstance(sym, K.Symbol) or self.text is None:
            return
        text = self.text(sym) if callable(self.text) else self.text  # decoded lazily: only when a dialog opens
        ok, _ = self.state.check_valid(sym, text)
        self.last_input = (sym, text, ok)
        if ok:
            App._apply_input(self, node, text)

    def _show_warning_then_change(self, node):
        App._do_warned_change(self, node)

    # --- real glue
    _do_save = App._do_save
    _handle_load_result = App._handle_load_result
    _handle_change = App._handle_change
    _do_restore_menu = App._do_restore_menu
    _apply_input = App._apply_input
    _do_warned_change = App._do_warned_change


def start(kconf, fs, conf="/m/proj/sdkconfig"):
    """what esp_menuconfig.menuconfig() does before the Textual app runs"""
    install_fs(fs, K, MM, MA)
    os.environ["KCONFIG_CONFIG"] = conf
    st = MM.MenuConfigState(kconf=kconf, conf_filename=conf, minconf_filename=os.path.join(os.path.dirname(conf), "sdkconfig.defaults"), conf_changed=False, write_deprecated=False)
    changed, msg = st.load_config()
    st.conf_changed = changed
    if not st.shown:
        st.show_all = True
        st.shown = st.shown_nodes(st.cur_menu)
    kconf.warn = False
    return st, FakeApp(st)


N_ACTIONS = 10


def act(app, a, x, text=None, nodes=None):
    """a: action code, x: row / node selector, text: typed text for input dialogs"""
    st = app.state
    n = len(st.shown)
    app.text = text
    app.last_input = None
    if a == 0:  # move highlight
        if n:
            st.sel_node_i = x % n
    elif a == 1:  # Enter
        if n:
            App._on_node_selected(app, _Ev(node=st.selected_node))
    elif a == 2:  # Space
        if n:
            App._on_node_toggled(app, _Ev(node=st.selected_node))
    elif a == 3:  # leave
        App._on_leave_requested(app, _Ev())
    elif a == 4:  # y / n keys
        if n:
            App._on_bool_value_set(app, _Ev(bool_val=2 if x % 2 else 0))
    elif a == 5:  # reset (option or, confirmed, whole menu)
        if n:
            node = st.selected_node
            if node.item == K.MENU:
                App._do_restore_menu(app, node)
            else:
                st.restore_default(node)
    elif a == 6:  # show-all
        App.action_toggle_all(app)
    elif a == 7:  # jump-to (search result)
        if nodes:
            App._handle_jump_result(app, nodes[x % len(nodes)])
    elif a == 8:  # load other file (one of two prepared files, or a missing one)
        App._handle_load_result(app, ("/m/proj/other", "/m/proj/other2", "/m/proj/missing")[x % 3])
    elif a == 9:  # save
        App.action_save(app)


def invariant(st, all_nodes):
    if st.shown:
        if not (0 <= st.sel_node_i < len(st.shown)):
            return False
    if st.cur_menu is not st.kconf.top_node and st.cur_menu not in all_nodes:
        return False
    return True
