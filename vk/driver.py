"""Per-property driver: known findings, job generation, scheduling, replay, evidence, exit code."""
import argparse
import hashlib
import importlib
import json
import os
import sys
import time

from . import engine
from .engine import Job, run_jobs, replay_native, EXIT_OK, EXIT_VIOLATION, EXIT_HARNESS

VERIF = engine.VERIF
KF_FILE = os.path.join(VERIF, "known_findings.json")

COMMON_STUBS = [
    "log model: esp_pylib.logger.log replaced inside repo modules by a recorder (messages are not written anywhere; concrete message parts are passed through rich.markup.render when markup is enabled; note/hint go to the info stream configured on the real logger)",
    "KconfigReport singleton reset before every Kconfig()",
    "Kconfig instances are built from concrete tree text outside tracing (NoTracing); all evaluation runs traced",
]


def load_known(prop):
    try:
        with open(KF_FILE) as f:
            d = json.load(f)
    except FileNotFoundError:
        return []
    return [e for e in d.get("findings", []) if e.get("property") == prop and e.get("status") == "open"]


def main(argv=None):
    ap = argparse.ArgumentParser()
    ap.add_argument("prop")
    ap.add_argument("--tier", default=os.environ.get("VERIF_TIER", "quick"))
    ap.add_argument("--replay")
    ap.add_argument("--workers", type=int, default=int(os.environ.get("VERIF_WORKERS", "16")))
    ap.add_argument("--only", default=None, help="substring filter on job names (debugging)")
    ap.add_argument("--list", action="store_true")
    a = ap.parse_args(argv)
    prop = a.prop.upper()
    tier = a.tier if a.tier in ("quick", "thorough") else "quick"
    seed = int(os.environ.get("VERIF_SEED", "0") or 0)

    if a.replay:
        with open(a.replay) as f:
            r = json.load(f)
        rep, detail = replay_native(r["job"], r["args"])
        print(detail)
        print("reproduced" if rep else "not reproduced")
        return EXIT_VIOLATION if rep else EXIT_OK

    t0 = time.time()
    mod = importlib.import_module("vk.props." + prop.lower())

    # ---- known findings: replay open witnesses; still-failing ones are announced and their region assumed away
    excluded = set()
    kf_reported = []
    for e in load_known(prop):
        w = e["witness"]
        rep, detail = replay_native(w, w["args"])
        if rep:
            print("KNOWN-FINDING: property=%s %s [%s]" % (prop, e["what"], e["id"]))
            excluded.add(e["region"])
            kf_reported.append(e["id"])
        else:
            print("note: known finding %s no longer reproduces; its region is verified like everything else" % e["id"])

    jobs = mod.jobs(tier, seed, excluded)
    if a.only:
        jobs = [j for j in jobs if a.only in j.name]
    if a.list:
        for j in jobs:
            print(j.name, j.params, j.pre, j.assume)
        return 0
    # the thorough tier samples from a larger pool of jobs: keep a seeded selection that fits the tier's time budget
    generated = len(jobs)
    cap = getattr(mod, "MAXJOBS", {}).get(tier, 130 if tier == "thorough" else None)
    if cap and len(jobs) > cap and not a.only:
        import random as _random

        r = _random.Random(seed * 31 + 7)
        keep = sorted(r.sample(range(len(jobs)), cap))
        jobs = [jobs[i] for i in keep]
    budget = getattr(mod, "BUDGET", {}).get(tier)
    if budget:
        budget *= float(os.environ.get("VERIF_BUDGET_SCALE", "1") or 1)  # (for runs with fewer workers than cores)
    deadline = t0 + budget if budget else None
    if budget and tier == "thorough" and jobs:
        # every selected job gets its turn: no job may use more than its fair share of the tier's budget
        fair = budget * max(1, a.workers) / len(jobs)
        for j in jobs:
            j.timeout = max(45, min(j.timeout, int(fair)))

    def progress(job, res):
        if os.environ.get("VERIF_VERBOSE"):
            print("  [%s] %-9s paths=%-6s q=%-6s %.1fs %s" % (job.name, res["verdict"], res.get("paths"), res.get("queries"), res.get("wall_s", 0), (res.get("message") or "")[:160].replace("\n", " ")), flush=True)

    results = run_jobs(jobs, workers=a.workers, deadline=deadline, progress=progress)

    # ---- verdicts
    counts = {"CONFIRMED": 0, "REFUTED": 0, "UNKNOWN": 0, "VACUOUS": 0, "ERROR": 0}
    violations = []
    harness_errors = []
    inconclusive = []
    replays_done = 0
    spurious = []
    for job, res in zip(jobs, results):
        v = res["verdict"]
        counts[v] = counts.get(v, 0) + 1
        if v == "REFUTED":
            args = res.get("args")
            if args is None:
                harness_errors.append((job, "counterexample arguments could not be parsed: %s" % res.get("message")))
                continue
            rep, detail = replay_native(job, args)
            replays_done += 1
            if rep:
                violations.append((job, args, res.get("message", ""), detail))
            else:
                # the solver's model does not fail against the real code: imprecision of the symbolic model of a
                # built-in (seen with z3 string ordering / regexes).  Nothing is shown either way: inconclusive.
                counts["REFUTED"] -= 1
                counts["UNKNOWN"] += 1
                spurious.append({"job": job.name, "args": args})
                inconclusive.append(job.name + " (spurious model %r)" % (args,))
                print("warning: job %s: solver model %r does not reproduce natively (%s); counted as inconclusive" % (job.name, args, detail), file=sys.stderr)
        elif v == "VACUOUS":
            # the reachability twin found no completing path inside the budget (all paths aborted or timed out):
            # the job proves nothing; it is counted as inconclusive, never as confirmed
            inconclusive.append(job.name + " (assertion not reached within budget)")
        elif v == "ERROR":
            harness_errors.append((job, "%s: %s" % (v, res.get("message"))))
        elif v == "UNKNOWN":
            inconclusive.append(job.name)

    # de-duplicate violations by (tree, message head): one line per distinct failing job is enough
    os.makedirs(os.path.join(VERIF, "replays"), exist_ok=True)
    out_lines = []
    for job, args, msg, detail in violations:
        h = hashlib.sha1(json.dumps([job.name, args], sort_keys=True, default=str).encode()).hexdigest()[:10]
        path = os.path.join(VERIF, "replays", "%s-%s.json" % (prop, h))
        with open(path, "w") as f:
            json.dump({"property": prop, "job": engine.asdict(job), "args": args, "message": msg, "detail": detail}, f, indent=1, default=str)
        out_lines.append("VIOLATION property=%s replay=%s" % (prop, path))
        print("  counterexample: job=%s tree=%s args=%r\n    %s" % (job.name, job.tree, args, (msg or "").replace("\n", " ")[:300]))
    for line in out_lines:
        print(line)
    for job, why in harness_errors:
        print("HARNESS-ERROR job=%s: %s" % (job.name, why[:1500]), file=sys.stderr)

    # ---- evidence
    wall = time.time() - t0
    paths = sum(r.get("paths", 0) for r in results)
    queries = sum(r.get("queries", 0) for r in results)
    solver_s = round(sum(r.get("solver_s", 0.0) for r in results), 2)
    native = sum(r.get("native_ok", 0) for r in results) + replays_done
    funcs = set()
    for r in results:
        funcs.update(r.get("functions", []))
    samples = []
    for job, res in list(zip(jobs, results))[:: max(1, len(jobs) // 6)][:8]:
        samples.append({"job": job.name, "tree": job.tree, "symbolic_params": job.params, "bounds": job.pre + ((" and " + job.assume) if job.assume else ""), "fixed_by_partition": job.ctx.get("fixed"), "verdict": res["verdict"], "paths": res.get("paths"), "native_sample": (job.samples[0] if job.samples else None)})
    info = getattr(mod, "INFO", {})
    ev = {
        "property_id": prop,
        "tier": tier,
        "seed": seed,
        "level": "model_checking",
        "coverage": {
            "states": max(paths, 0),
            "transitions": max(queries, 0),
            "traces_validated_against_impl": native,
            "samples": samples or [{"note": "no jobs"}],
            "exhaustive": bool(jobs) and counts["CONFIRMED"] == len(jobs),
            "explanation": "states = execution paths of the harness explored symbolically by CrossHair (each path = one equivalence class of inputs); transitions = z3 satisfiability queries; exhaustive=true means every job was 'Confirmed over all paths' inside its bounds",
            "jobs": {"generated": generated, "total": len(jobs), "confirmed": counts["CONFIRMED"], "refuted": counts["REFUTED"], "inconclusive": counts["UNKNOWN"] + counts["VACUOUS"], "vacuous": counts["VACUOUS"], "error": counts["ERROR"]},
            "inconclusive_jobs": inconclusive[:50],
            "spurious_models": spurious[:20],
            "solver_s": solver_s,
            "functions_encoded": sorted(funcs) if funcs else info.get("functions", []),
            "functions_encoded_note": "repo functions entered while running one in-bounds sample of each job natively (the same functions execute under CrossHair tracing); parsing functions run outside tracing on concrete text",
            "bounds": info.get("bounds", {}).get(tier, info.get("bounds", "")),
            "trees": sorted({j.tree for j in jobs}),
            "outside_claim": info.get("outside", []),
            "known_findings_reported": kf_reported,
            "engine": "crosshair-tool 0.0.110 + z3 (python wheel), harness regenerated from /repo working tree on every run",
        },
        "assumptions": COMMON_STUBS + info.get("stubs", []),
        "wall_s": round(wall, 2),
        "violations": len(violations),
    }
    if ev["coverage"]["states"] < 1:
        ev["coverage"]["states"] = 1 if jobs else 0
    if ev["coverage"]["transitions"] < 1:
        ev["coverage"]["transitions"] = 1 if jobs else 0
    from . import REPO

    # evidence describes runs against /repo only; a run against another checkout (VERIF_REPO) leaves it alone
    evdir = os.path.join(VERIF, "evidence") if REPO == "/repo" else os.path.join("/tmp", "verif-evidence-other-repo")
    os.makedirs(evdir, exist_ok=True)
    with open(os.path.join(evdir, prop + ".json"), "w") as f:
        json.dump(ev, f, indent=1, default=str)

    print("%s tier=%s jobs=%d confirmed=%d refuted=%d inconclusive=%d errors=%d paths=%d z3-queries=%d z3-time=%.1fs wall=%.1fs" % (prop, tier, len(jobs), counts["CONFIRMED"], counts["REFUTED"], counts["UNKNOWN"] + counts["VACUOUS"], counts["ERROR"], paths, queries, solver_s, wall))
    if violations:
        return EXIT_VIOLATION
    if harness_errors:
        return EXIT_HARNESS
    return EXIT_OK


if __name__ == "__main__":
    sys.exit(main())
