#!/bin/sh
# tools/seedonly.sh <PROP> <NAME> <job-name-substring>: run only matching jobs of a check against a scratch worktree with seeded/<NAME>/patch.diff
P="$1"; NAME="$2"; ONLY="$3"
S=/tmp/seedscratch-only-$NAME
rm -rf "$S"; git -C /repo worktree prune; git -C /repo worktree add -f "$S" HEAD >/dev/null 2>&1 || exit 2
( cd "$S" && git apply /verif/seeded/$NAME/patch.diff ) || { echo "patch does not apply"; git -C /repo worktree remove --force "$S"; exit 2; }
( cd /verif && VERIF_REPO="$S" VERIF_WORKERS="${VERIF_WORKERS:-6}" VERIF_BUDGET_SCALE=4 ./check "$P" --tier quick --only "$ONLY" 2>&1 | tail -3 | cut -c1-220 )
git -C /repo worktree remove --force "$S"
