#!/usr/bin/env python3
"""Runs the repository's pinned test suite (command from /root/.vp/BASELINE.json) and checks that every
test of BASELINE.stable_pass still passes.  Usage: tools/baseline.py [repo_dir]"""
import json, subprocess, sys, tempfile, os
import xml.etree.ElementTree as ET

repo = sys.argv[1] if len(sys.argv) > 1 else "/repo"
base = json.load(open("/root/.vp/BASELINE.json"))
with tempfile.TemporaryDirectory() as d:
    x = os.path.join(d, "j.xml")
    cmd = base["cmd"].replace("cd /repo", "cd " + repo).replace("<file>", x)
    env = dict(os.environ)
    env.pop("ESP_IDF_KCONFIG_VERIF", None)
    p = subprocess.run(cmd, shell=True, capture_output=True, text=True, env=env)
    passed = set()
    for tc in ET.parse(x).getroot().iter("testcase"):
        if not any(c.tag in ("failure", "error", "skipped") for c in tc):
            passed.add(tc.get("classname") + "::" + tc.get("name"))
missing = [t for t in base["stable_pass"] if t not in passed]
print("stable_pass=%d passing_now=%d missing=%d" % (len(base["stable_pass"]), len(passed & set(base["stable_pass"])), len(missing)))
for m in missing[:20]:
    print("  NOT PASSING:", m)
sys.exit(1 if missing else 0)
