#!/bin/sh
# tools/seedcheck.sh <PROP> <worktree-with-_seed>  : verify an independently produced breaking change and run our check on it
# 1. copy _seed/{patch.diff,demo.py,meta.json} to /verif/seeded/<PROP>[-n]/
# 2. in a scratch worktree of /repo: demo passes without the patch, fails with it; stable tests still pass with it
# 3. apply to /repo, run ./check <PROP> --tier quick, undo
set -u
P="$1"; WT="$2"; NAME="${3:-$P}"
D=/verif/seeded/$NAME
mkdir -p "$D"
cp "$WT/_seed/patch.diff" "$WT/_seed/demo.py" "$WT/_seed/meta.json" "$D/" || exit 2
S=/tmp/seedscratch-$NAME
rm -rf "$S"; git -C /repo worktree prune; git -C /repo worktree add -f "$S" HEAD >/dev/null 2>&1 || exit 2
( cd "$S" && SEED_REPO="$S" PYTHONPATH="$S" /venv/bin/python "$D/demo.py" >/tmp/seed-$NAME-clean.log 2>&1 ); CLEAN=$?
( cd "$S" && git apply "$D/patch.diff" ) || { echo "patch does not apply"; git -C /repo worktree remove --force "$S"; exit 2; }
( cd "$S" && SEED_REPO="$S" PYTHONPATH="$S" /venv/bin/python "$D/demo.py" >/tmp/seed-$NAME-patched.log 2>&1 ); PATCHED=$?
BASE=$(python3 /verif/tools/baseline.py "$S" | head -1)
git -C /repo worktree remove --force "$S"
echo "demo clean=$CLEAN patched=$PATCHED ; tests with patch: $BASE"
[ -n "$(git -C /repo status --porcelain)" ] && { echo "/repo not clean"; exit 2; }
git -C /repo apply "$D/patch.diff" || exit 2
( cd /verif && ./check "$P" --tier quick >/tmp/seed-$NAME-check.log 2>&1 ); RC=$?
git -C /repo checkout -- . 
echo "check $P exit=$RC : $(grep -c '^VIOLATION' /tmp/seed-$NAME-check.log) violation lines; $(tail -1 /tmp/seed-$NAME-check.log)"
