#!/bin/sh
# tools/seedcheck.sh <PROP> <worktree-with-_seed> [NAME]: verify an independently produced breaking change and run our
# check on it.  Nothing is applied to /repo: the check runs against a scratch worktree through VERIF_REPO.
# 1. copy _seed/{patch.diff,demo.py,meta.json} to /verif/seeded/<NAME>/
# 2. in a scratch worktree of /repo: demo passes without the patch, fails with it; stable tests still pass with it
# 3. VERIF_REPO=<scratch with patch> ./check <PROP> --tier quick
set -u
P="$1"; WT="$2"; NAME="${3:-$P}"
D=/verif/seeded/$NAME
mkdir -p "$D"
if [ -d "$WT/_seed" ]; then cp "$WT/_seed/patch.diff" "$WT/_seed/demo.py" "$WT/_seed/meta.json" "$D/" || exit 2; fi
S=/tmp/seedscratch-$NAME
rm -rf "$S"; git -C /repo worktree prune; git -C /repo worktree add -f "$S" HEAD >/dev/null 2>&1 || exit 2
( cd "$S" && SEED_REPO="$S" PYTHONPATH="$S" /venv/bin/python "$D/demo.py" >/tmp/seed-$NAME-clean.log 2>&1 ); CLEAN=$?
( cd "$S" && git apply "$D/patch.diff" ) || { echo "patch does not apply"; git -C /repo worktree remove --force "$S"; exit 2; }
( cd "$S" && SEED_REPO="$S" PYTHONPATH="$S" /venv/bin/python "$D/demo.py" >/tmp/seed-$NAME-patched.log 2>&1 ); PATCHED=$?
BASE=$(python3 /verif/tools/baseline.py "$S" | head -1)
echo "demo clean=$CLEAN patched=$PATCHED ; tests with patch: $BASE"
( cd /verif && VERIF_REPO="$S" VERIF_WORKERS="${VERIF_WORKERS:-6}" VERIF_BUDGET_SCALE="${VERIF_BUDGET_SCALE:-3}" ./check "$P" --tier quick >/tmp/seed-$NAME-check.log 2>&1 ); RC=$?
git -C /repo worktree remove --force "$S"
echo "check $P exit=$RC : $(grep -c '^VIOLATION' /tmp/seed-$NAME-check.log) violation lines; $(tail -1 /tmp/seed-$NAME-check.log)"
