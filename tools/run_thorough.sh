#!/bin/sh
# runs every claimed check's thorough tier once, sequentially (used via `vp run` to exercise them end-to-end)
cd "$(dirname "$0")/.."
for p in ${PROPS:-C01 C02 C03 C04 C05 C06 C07 C08 C09 C10 C11 C12 C13 C14 C15 C16 C17 C19 C20}; do
    start=$(date +%s)
    ./check $p --tier thorough > thorough-$p.log 2>&1
    rc=$?
    echo "$p exit=$rc $(( $(date +%s) - start ))s $(tail -1 thorough-$p.log)"
    grep "^VIOLATION\|HARNESS-ERROR\|counterexample" thorough-$p.log | head -5
done
