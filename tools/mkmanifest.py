#!/usr/bin/env python3
"""Regenerates /verif/MANIFEST.json from the table below (kept here so that the manifest stays consistent)."""
import json, os

HERE = os.path.dirname(os.path.dirname(os.path.abspath(__file__)))
props = [json.loads(line) for line in open(os.path.join(HERE, "properties.jsonl"))]

TECH = "bounded symbolic execution of the real Python functions with CrossHair (z3): per concrete tree, the solver decides all configurations / operations / inputs inside the stated bounds; counterexamples replayed natively"
NOTE = ("Trusted base: CrossHair's models of str/int/containers, z3, the stubs listed in the evidence file (log model, in-memory FS, json/sys shims), "
        "the finite tree corpus (programs are enumerated, not symbolic). Bounds per tier are in the evidence file; jobs that exhaust their budget are reported as inconclusive, never as success.")

# property -> (claimed?, level text, design ref)
CLAIMS = {
    "C01": ("Per corpus tree, for every user state inside the bounds (incl. values on hidden / promptless options, malformed and out-of-range numbers): value and visibility of every option computed by the real evaluator equal an executable specification written from language.rst / defaults.rst on the tree's own AST (independent of both parsers); and a user value on an option whose prompt is hidden changes no value and no output.", "DESIGN.md 4/C01"),
    "C02": ("Per corpus tree, for every reachable user state inside the bounds (incl. a fully symbolic string value per string option): write_config -> fresh load_config reproduces every value and assignment line, raises no default-mismatch / multiple-assignment / unknown-symbol diagnostics, and the second write is byte-identical (no file operation). Also second generation (save, reload into the used instance, one symbolic edit) and the deprecated block.", "DESIGN.md 4/C02"),
    "C03": ("Inductive step for the evaluation caches: for each corpus tree, for every pre-state inside the bounds with all caches filled, and every single operation (set/unset/reset/reset-menu, symbolic value), values read incrementally == values after discarding all caches == values of a fresh instance given the same user state; the step is run with all caches filled (forward / reverse read order), with exactly one symbolic item read, and with nothing read before the operation; plus: loading a tool-written file into a used instance == loading it into a fresh one. Solver-exhausted per job.", "DESIGN.md 4/C03"),
    "C04": ("Per corpus program: both parsers accept/reject alike and build the same menu tree (concrete comparison), and for every user state inside the bounds the two instances agree on values, visibility, sdkconfig, header and JSON (solver-decided). The quantifier over programs is a finite corpus.", "DESIGN.md 4/C04"),
    "C05": ("Per corpus tree with choices: for every user state (members, picks, condition options), after one further symbolic operation with live caches, and after loading files assigning several members: exactly one visible member is y and it is the specified one (pick, else first satisfied default, else first visible); header / CMake / JSON define only that member.", "DESIGN.md 4/C05"),
    "C06": ("Per corpus tree with numeric options: for every user state with symbolic ints and the full malformed / negative / huge / differently formatted candidate lists, arriving via set_value or sdkconfig lines: every value is well-formed for its type, inside the active range, and header / CMake / JSON render the same number without raising; also after one further symbolic operation on each option with all caches filled.", "DESIGN.md 4/C06"),
    "C07": ("Per corpus tree x rename shape: for every user state, the five output formats (sdkconfig, header, CMake, JSON, auto.conf) read back with small trusted readers agree on presence and value of every option and every deprecated alias (inversion per alias line).", "DESIGN.md 4/C07"),
    "C08": ("Clause 1: per corpus tree and every user state, the tool-written file loaded with and without its default-marked entries gives the same configuration, now and after one further symbolic operation; unmarked entries come back as user values. Clause 2: 13 (old tree, new tree) pairs x policy {sdkconfig, kconfig}: kconfig ignores stale default-marked entries, sdkconfig keeps a still-valid stored value, both report the mismatch.", "DESIGN.md 4/C08"),
    "C09": ("Totality: per accepted corpus tree, for every user state with malformed candidates, every value / visibility / output evaluates without exception. Cycles: all (465) forward-edge x back-edge mutants are rejected at load with a dependency-loop error (enumeration of concrete programs).", "DESIGN.md 4/C09"),
    "C10": ("Per corpus tree: for every user state, each of the four minimal-config variants (labels x =n normalisation) and kconfgen's variant reloads in a fresh instance to the same value for every option; labelled and unlabelled variants carry the same assignments in the same order.", "DESIGN.md 4/C10"),
    "C11": ("Per rename shape: every sdkconfig of up to 2 (thorough 3) lines mixing old and new names (symbolic name, form, value) loads to the same configuration as its translation to new names (inversion, 'is not set' on inverted aliases); old names never appear as unknown; the deprecated block is ignored unless requested and, when requested, its entries evaluate to the written values.", "DESIGN.md 4/C11"),
    "C12": ("Per corpus tree (and tree-version pair): symbolic pre-state, completed sync, symbolic operation, sync with symbolic crash point (before any mutating file operation or inside a write), further symbolic operation, rerun from a fresh instance: every option (and alias) whose header value differs from the last completed sync has been touched since; without crash: no untouched change, no spurious touch, repeated sync is a no-op.", "DESIGN.md 4/C12"),
    "C13": ("Per corpus tree: all core writers and the real kconfgen main() (config, header, cmake, json, json_menus, savedefconfig) run twice touch no destination the second time, and after one symbolic operation rewrite exactly the destinations whose text changes; a save over a complete previous file (regular or symlink) through Kconfig.write_config(save_old=True), kconfgen's write_config wrapper (the server's save) and the menuconfig save, with symbolic crash point, never loses both copies.", "DESIGN.md 4/C13"),
    "C14": ("Per corpus tree x protocol version 1-3: a model client applying the initial message and the replies to 1-2 symbolic requests (set / reset / load / save, valid and invalid) holds the state a fresh server reports for the file written by save; options missing there are reported invisible.", "DESIGN.md 4/C14"),
    "C15": ("Per corpus tree: for one request of symbolic shape (every protocol key, valid and wrong-typed; every version code; visible / invisible / unknown / menu / bogus targets; values of every JSON type) from a sampled configuration, and for short sequences with bad requests first: run_server raises nothing, writes exactly one JSON line per line received and nothing else to stdout, an entry that did not take effect leaves the configuration as if it had not been sent, and an unreadable / unwritable file name in load / save is reported in `error` with configuration and session file untouched. Log messages are passed through rich markup parsing like the real console.", "DESIGN.md 4/C15"),
    "C16": ("Per corpus tree x initial file (absent, tool-written, hand-edited variants): every sequence of 2 UI-level actions incl. saves and loads (thorough: more trees and start states, plus 3-action sequences with the first two kinds fixed per job and reduced row / text ranges), driven through the real MenuConfigApp handlers on a stand-in self: whenever needs_save() is false the file equals what saving would write; right after a save or after loading a tool-written file needs_save() is false.", "DESIGN.md 4/C16"),
    "C17": ("Per corpus tree: every sequence of 2 UI-level actions (thorough: more trees and start states) (navigation, Enter, Space, y/n, reset, show-all, jump-to, load) with typed texts from candidate lists: no exception, the highlighted row exists, locked options keep their value, only assignable values are applied, a text the validator accepts is the value the option then has.", "DESIGN.md 4/C17"),
    "C19": ("On a fixed directory skeleton with symbolic file-system facts (project roots, rename files per directory) the verdict of the real _prepare_deprecated_options + check_deprecated_options for each defaults file equals a memo-free specification of 'global scope or own nearest project', in two different orders / subsets of the files.", "DESIGN.md 4/C19"),
    "C20": ("Per (tree, target): visibility and shown conditions computed by the real gen_kconfig_doc; for every assignment of the user-settable options a hidden prompt is n, every shown condition (recomputed with the writer's helpers, and read back from the generated text for can-be-set-when / forced-by / affects rows) has the truth value of the Kconfig condition, dropped rows never apply; every :ref: of the generated text has its anchor.", "DESIGN.md 4/C20"),
}

NA = {
    "C18": "kconfcheck is a whole-file regex scanner; symbolic whitespace parameters turn every regex into a z3 string query (measured: 1020-element space not exhausted in 500 s) and concretising them is plain enumeration, which this technique family excludes as the deciding step (DESIGN.md 5)",
}

checks = []
for p in props:
    pid = p["id"]
    if pid in CLAIMS:
        text, ref = CLAIMS[pid]
        checks.append({
            "property_id": pid,
            "quick_cmd": "./check %s --tier quick" % pid,
            "thorough_cmd": "./check %s --tier thorough" % pid,
            "evidence_file": "/verif/evidence/%s.json" % pid,
            "replay_cmd_template": "./check %s --replay {path}" % pid,
            "engine": "vk",
            "level_claimed": {"category": "model_checking", "text": text, "design_ref": ref},
            "level_note": NOTE,
            "technique": TECH,
        })
na = [{"property_id": p["id"], "reason": NA.get(p["id"], "check not built yet in this revision (work in progress; see DESIGN.md for the planned harness)")} for p in props if p["id"] not in CLAIMS]

m = {
    "version": 1,
    "setup_cmd": "./setup.sh",
    "hooks": {
        "guard": "ESP_IDF_KCONFIG_VERIF",
        "enable": "no hooks are needed: all interposition is done by assigning module globals (log, open, os, json, sys) from the harness process; the guard variable is unused",
        "baseline_off_cmd": "python3 /verif/tools/baseline.py /repo",
        "source_commits": [],
        "add_only": True,
    },
    "engines": [
        {"name": "vk", "path": "/verif/vk", "serves_properties": sorted(CLAIMS), "kind_free_text": "job runner around CrossHair 0.0.110 (symbolic execution of the repo's Python code, z3 back end); one interpreter per job, 16 in parallel; native replay of every counterexample"}
    ],
    "checks": checks,
    "not_applicable": na,
    "notes": "Exit codes of ./check: 0 nothing violated in everything explored, 1 reproduced violation (VIOLATION line), 3 harness error (never a VIOLATION line). Genuine defects repaired in /repo ('fix:' commits) and open findings are listed in /verif/known_findings.json.",
}
json.dump(m, open(os.path.join(HERE, "MANIFEST.json"), "w"), indent=1)
print("claimed:", sorted(CLAIMS), "n/a:", [x["property_id"] for x in na])
