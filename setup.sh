#!/bin/sh
# Builds /verif/.venv: a python3.12 venv overlaid on /venv (the repository's environment) plus
# crosshair-tool from the offline wheelhouse.  Idempotent; no network.
set -e
HERE="$(cd "$(dirname "$0")" && pwd)"
VENV="$HERE/.venv"
if [ -x "$VENV/bin/python" ] && "$VENV/bin/python" -c "import crosshair, z3, esp_kconfiglib" >/dev/null 2>&1; then
    exit 0
fi
# serialise concurrent bootstraps (several checks may start at once on a fresh copy)
LOCK="$HERE/.venv.lock"
exec 9>"$LOCK"
flock 9
if [ -x "$VENV/bin/python" ] && "$VENV/bin/python" -c "import crosshair, z3, esp_kconfiglib" >/dev/null 2>&1; then
    exit 0
fi
rm -rf "$VENV"
/venv/bin/python -m venv "$VENV"
SP="$("$VENV/bin/python" -c 'import sysconfig; print(sysconfig.get_paths()["purelib"])')"
printf '%s\n%s\n' "/venv/lib/python3.12/site-packages" "/repo" > "$SP/verif_overlay.pth"
PIP_NO_INDEX=1 "$VENV/bin/python" -m pip install --quiet --no-index --find-links /opt/veriftools/wheels crosshair-tool >/dev/null
"$VENV/bin/python" -c "import crosshair, z3, esp_kconfiglib; print('verif venv ready')"
