#
# Automatically generated file. DO NOT EDIT.
# Espressif IoT Development Framework (ESP-IDF)  Project Configuration
#
# CONFIG_PREF is not set
CONFIG_HIDE=y
CONFIG_M1=y
CONFIG_CNT=77
