#
# Automatically generated file. DO NOT EDIT.
# Espressif IoT Development Framework (ESP-IDF)  Project Configuration
#
CONFIG_PREF=y
# default:
# CONFIG_HIDE is not set
CONFIG_M1=y
# CONFIG_M2 is not set
# CONFIG_M3 is not set
CONFIG_CNT=7
